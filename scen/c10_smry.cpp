// C10 — every summary value written can be read back at its vector and ministep (DESIGN 5/C10).
// kind "smry" (S-SMRY): synthetic producer over the real OutputStream::SummarySpecification + createSummaryFile:
//        vector counts 1..4500 dense near multiples of 1000, FMTOUT x UNIFOUT, ministep/report sequences, base-run chains;
//        readers: ESmry (whole-file and vector-list paths, random single vectors), ESmry::make_esmry_file -> ExtESmry.
// kind "run"  (S-RUN): the real out::Summary + ExtSmryOutput writer inside a simulated run; the *simulated wall clock*
//        decides at which ministeps the ESMRY file is rewritten (>= 15 s rule); reader probes run at API boundaries (P1) and,
//        for CASE.ESMRY, at every syscall boundary inside the writer (P2: a complete prefix, never decreasing).
#include "../simcore/runner.hpp"
#include "../simcore/eclcodec.hpp"
#include "srun/driver.hpp"

#include <opm/common/utility/TimeService.hpp>
#include <opm/io/eclipse/ESmry.hpp>
#include <opm/io/eclipse/ExtESmry.hpp>
#include <opm/io/eclipse/EclOutput.hpp>
#include <opm/io/eclipse/OutputStream.hpp>
#include <opm/io/eclipse/SummaryNode.hpp>

#include <cmath>
#include <cstring>
#include <sstream>

using namespace sim;
using namespace srun;
namespace EclIO = Opm::EclIO;
namespace OS = Opm::EclIO::OutputStream;

namespace {

using Json = sim::Json;

struct Vec { std::string kw, wg; int num; std::string unit, key; };

// ---------------------------------------------------------------------------------- S-SMRY vector lists
std::vector<Vec> make_vectors(int n, int nx, int ny, int nz, Rng& g) {
    static const char* F[] = {"FOPR", "FWPR", "FGPR", "FLPR", "FOPT", "FWPT", "FGPT", "FLPT", "FWCT", "FGOR", "FWIR", "FGIR", "FWIT", "FGIT", "FPR", "FOIP", "FWIP", "FGIP", "FVPR", "FVPT", "FVIR", "FVIT", "FOPRH", "FWPRH", "FGPRH", "FOPTH", "FWPTH", "FGPTH"};
    static const char* W[] = {"WOPR", "WWPR", "WGPR", "WLPR", "WOPT", "WWPT", "WGPT", "WLPT", "WWCT", "WGOR", "WBHP", "WTHP", "WWIR", "WGIR", "WWIT", "WGIT", "WOPRH", "WWPRH", "WGPRH", "WOPTH", "WWPTH", "WGPTH", "WBHPH", "WTHPH", "WPI", "WVPR", "WVPT", "WVIR", "WVIT", "WGLR", "WOIR", "WOIT", "WWIRH", "WGIRH", "WWITH", "WGITH"};
    static const char* G[] = {"GOPR", "GWPR", "GGPR", "GLPR", "GOPT", "GWPT", "GGPT", "GLPT", "GWCT", "GGOR", "GWIR", "GGIR", "GWIT", "GGIT", "GVPR", "GVPT"};
    static const char* B[] = {"BPR", "BSWAT", "BSGAS", "BOSAT", "BRS", "BRV", "BOKR", "BWKR", "BGKR", "BVOIL"};
    static const char* C[] = {"COPR", "CWPR", "CGPR", "COPT", "CWPT", "CGPT", "CWIR", "CGIR", "CWIT", "CGIT", "CPR", "CTFAC"};
    static const char* R[] = {"RPR", "ROIP", "RWIP", "RGIP", "ROPR", "RWPR"};
    std::vector<Vec> v;
    v.push_back({"TIME", ":+:+:+:+", 0, "DAYS", "TIME"});
    const int ncell = nx * ny * nz;
    auto ijk = [&](int glob) { int g0 = glob - 1; int i = g0 % nx, j = (g0 / nx) % ny, k = g0 / (nx * ny); return std::to_string(i + 1) + "," + std::to_string(j + 1) + "," + std::to_string(k + 1); };
    int nw = 1 + (n / 60), ng = 1 + (n / 400);
    int wi = 0, fi = 0, gi = 0, bi = 0, ci = 0, ri = 0;
    while (static_cast<int>(v.size()) < n) {
        double u = g.unit();
        if (u < 0.05 && fi < 28) { v.push_back({F[fi], ":+:+:+:+", 0, "SM3/DAY", F[fi]}); ++fi; }
        else if (u < 0.45 && wi < 36 * nw) { const char* k = W[wi % 36]; std::string w = "W" + std::to_string(wi / 36 + 1); v.push_back({k, w, 0, "SM3/DAY", std::string(k) + ":" + w}); ++wi; }
        else if (u < 0.55 && gi < 16 * ng) { const char* k = G[gi % 16]; std::string gn = "GRP" + std::to_string(gi / 16 + 1); v.push_back({k, gn, 0, "SM3/DAY", std::string(k) + ":" + gn}); ++gi; }
        else if (u < 0.78 && bi < 10 * ncell) { const char* k = B[bi % 10]; int num = bi / 10 + 1; v.push_back({k, ":+:+:+:+", num, "BARSA", std::string(k) + ":" + ijk(num)}); ++bi; }
        else if (u < 0.95 && ci < 12 * nw * std::min(ncell, 6)) { const char* k = C[ci % 12]; int q = ci / 12; std::string w = "W" + std::to_string(q % nw + 1); int num = (q / nw) % ncell + 1; v.push_back({k, w, num, "SM3/DAY", std::string(k) + ":" + w + ":" + ijk(num)}); ++ci; }
        else if (ri < 6 * 40) { const char* k = R[ri % 6]; int num = ri / 6 + 1; v.push_back({k, ":+:+:+:+", num, "BARSA", std::string(k) + ":" + std::to_string(num)}); ++ri; }
    }
    return v;
}

float value_of(size_t vec, int ministep_global, int run_tag) { return static_cast<float>(static_cast<double>(vec) + 5000.0 * ministep_global + 0.25 * run_tag); }

struct SynthRun {
    std::string base; std::vector<Vec> vecs; std::vector<std::vector<int>> steps;   // per report step: number of ministeps listed as ids
    int first_report = 1; int tag = 0;
    std::vector<std::vector<float>> series;     // [ministep][vector]
    std::vector<int> rstep_of_ministep;
};

void write_synth(SynthRun& run, bool fmt, bool unif, const std::string& restart_root, int restart_step, Opm::time_point start, double t0_days, int ministep0) {
    OS::ResultSet rset{".", run.base};
    OS::SummarySpecification spec{rset, OS::Formatted{fmt}, OS::SummarySpecification::UnitConvention::Metric, {4, 3, 2}, OS::SummarySpecification::RestartSpecification{restart_root, restart_step}, start};
    OS::SummarySpecification::Parameters par;
    for (auto& v : run.vecs) par.add(v.kw, v.wg, v.num, v.unit);
    std::unique_ptr<EclIO::EclOutput> stream;
    double t = t0_days; int ms = ministep0;
    for (size_t r = 0; r < run.steps.size(); ++r) {
        const int seq = run.first_report + static_cast<int>(r);
        spec.write(par);      // the real writer rewrites the SMSPEC at every new report step
        if (!unif || !stream) stream = OS::createSummaryFile(rset, seq, OS::Formatted{fmt}, OS::Unified{unif});
        stream->write("SEQHDR", std::vector<int>{seq});
        for (int q = 0; q < static_cast<int>(run.steps[r].size()); ++q) {
            t += 0.5 + 0.25 * ((ms * 7) % 5);
            std::vector<float> row(run.vecs.size());
            for (size_t v = 0; v < run.vecs.size(); ++v) row[v] = value_of(v, ms, run.tag);
            row[0] = static_cast<float>(t);
            stream->write("MINISTEP", std::vector<int>{ms});
            stream->write("PARAMS", row);
            run.series.push_back(row); run.rstep_of_ministep.push_back(seq);
            ++ms;
        }
        stream->flushStream();
    }
}

struct C10 : Scenario {
    std::string id() const override { return "C10"; }
    Json describe() override { Json j = Json::object(); j["scenario"] = "S-SMRY + S-RUN"; j["real_vs_stub"] = describe_real_vs_stub();
        j["S-SMRY"] = "real: OutputStream::SummarySpecification, createSummaryFile, EclOutput, ESmry, ExtESmry, ESmry::make_esmry_file; stub: the vector list and values (unique per vector and ministep)"; return j; }

    Json generate(Rng& rng, const std::string& tier, std::uint64_t run) override {
        Json p = Json::object();
        const bool runkind = mix64(run ^ 0xC10) % 4 == 0;      // not run % 4: a worker handles every W-th run index and must see both kinds
        p["scenario"] = runkind ? "S-RUN" : "S-SMRY"; p["kind"] = runkind ? "run" : "smry";
        if (!runkind) {
            // vector count: dense near multiples of 1000
            std::uint64_t k = run;
            int nv;
            if (k % 3 == 0) { int base = static_cast<int>(1000 * (1 + (k / 3) % 4)); static const int off[] = {-3, -2, -1, 0, 1, 2, 3}; nv = base + off[(k / 12) % 7]; }
            else if (k % 3 == 1) nv = static_cast<int>(rng.range(1, 60));
            else nv = static_cast<int>(rng.range(60, tier == "thorough" ? 4500 : 2200));
            p["nvec"] = nv; p["vec_seed"] = static_cast<long long>(rng.next() >> 8);
            p["formatted"] = rng.chance(0.35); p["unified"] = rng.chance(0.6);
            Json steps = Json::array(); int nr = static_cast<int>(rng.range(1, 6)); for (int r = 0; r < nr; ++r) steps.push(static_cast<long long>(rng.range(1, 4))); p["steps"] = steps;
            p["chain"] = static_cast<long long>(rng.chance(0.4) ? rng.range(1, tier == "thorough" ? 2 : 1) : 0);
            p["restart_pick"] = static_cast<long long>(rng.below(100));
            Json st2 = Json::array(); int nr2 = static_cast<int>(rng.range(1, 4)); for (int r = 0; r < nr2; ++r) st2.push(static_cast<long long>(rng.range(1, 3))); p["steps_b"] = st2;
            p["read_seed"] = static_cast<long long>(rng.next() >> 8);
        } else {
            GenOpts o; o.max_steps = 6; o.max_actions = 1; o.max_udq = 1; o.esmry = true; o.vector_target = rng.chance(0.3) ? static_cast<int>(rng.range(990, 1010)) : 0;
            o.rptonly = rng.chance(0.2); o.sumthin = rng.chance(0.2); o.stop_safe = true;
            p["model_seed"] = static_cast<long long>(rng.next() >> 8); p["gen"] = o.to_json(); p["physics_seed"] = static_cast<long long>(rng.next() >> 16);
            Json ms = Json::array();
            for (int s = 0; s < o.max_steps; ++s) { Json f = Json::array(); int n = static_cast<int>(rng.range(1, 5)); for (int k = 1; k < n; ++k) f.push(static_cast<double>(k) / n); f.push(1.0); ms.push(f); }
            p["ministeps"] = ms;
            p["continue_pick"] = static_cast<long long>(rng.chance(0.5) ? rng.range(1, 1000) : 0);      // > 0: a second run continues the base run from one of its report steps
            // simulated wall clock increments per ministep: the >= 15 s throttle of ExtSmryOutput is decided by these
            Json wa = Json::array(); int nw = static_cast<int>(rng.range(1, 6));
            int style = static_cast<int>(rng.below(5));      // style 4: the wall clock also jumps backwards (NTP step, VM migration)
            for (int k = 0; k < nw; ++k) wa.push(style == 0 ? 0.0 : style == 1 ? 20.0 : style == 2 ? (rng.chance(0.5) ? 0.0 : 16.0) : style == 3 ? rng.real(0, 30) : rng.real(-3600, 60));
            p["wall_advance"] = wa;
            p["restart_pick"] = static_cast<long long>(rng.below(100)); p["with_restart"] = rng.chance(0.4);
            p["drops"] = Json::object();
        }
        return p;
    }

    std::vector<Json> shrink(const Json& plan) override {
        std::vector<Json> out;
        if (plan.gets("kind") == "smry") {
            if (plan.geti("chain") > 0) { Json p = plan; p["chain"] = plan.geti("chain") - 1; out.push_back(p); }
            shrink_array(plan, "steps", out, 1); shrink_array(plan, "steps_b", out, 1);
            long nv = static_cast<long>(plan.geti("nvec"));
            for (long c : {1L, 2L, 999L, 1000L, 1001L, nv / 2, nv - 1}) if (c >= 1 && c < nv) { Json p = plan; p["nvec"] = c; out.push_back(p); }
            if (plan.getb("formatted")) { Json p = plan; p["formatted"] = false; out.push_back(p); }
            if (!plan.getb("unified")) { Json p = plan; p["unified"] = true; out.push_back(p); }
        } else {
            Model m = generate_model(static_cast<std::uint64_t>(plan.geti("model_seed")), GenOpts::from_json(plan.at("gen")));
            Json drops = plan.has("drops") ? plan.at("drops") : Json::object(); apply_drops(m, drops);
            if (plan.getb("with_restart")) { Json p = plan; p["with_restart"] = false; out.push_back(p); }
            for (int k = 1; k < m.nsteps(); ++k) { Json p = plan; p["drops"]["keep_steps"] = k; out.push_back(p); }
            for (auto& a : m.actions0) { Json p = plan; Json l = drops.has("actions") ? drops.at("actions") : Json::array(); l.push(a.name); p["drops"]["actions"] = l; out.push_back(p); }
            if (m.wells.size() > 1) for (auto& w : m.wells) { Json p = plan; Json l = drops.has("wells") ? drops.at("wells") : Json::array(); l.push(w.name); p["drops"]["wells"] = l; out.push_back(p); }
            shrink_array(plan, "wall_advance", out, 1);
        }
        return out;
    }

    // ------------------------------------------------------------------------------------------------ readers (P1)
    // `want`: rows [ministep][vector]; `keys`: key per vector; compare everything every reader returns
    static void check_readers(RunResult& r, const std::string& smspec, bool load_base, const std::vector<std::string>& keys, const std::vector<std::vector<float>>& want,
                              const std::vector<int>& rstep_of, bool formatted, Rng& g, Hash64& oh, const std::string& ctx, bool try_esmry_conversion) {
        auto same = [&](float a, float b) { if (!formatted) return std::memcmp(&a, &b, 4) == 0; return std::fabs(static_cast<double>(a) - static_cast<double>(b)) <= 1.2e-7 * std::fabs(static_cast<double>(b)); };
        const std::string sfx = formatted ? ".formatted" : ".unformatted";
        try {
            EclIO::ESmry a(smspec, load_base);
            if (a.numberOfTimeSteps() != want.size()) { r.fail("C10.esmry.nsteps" + sfx, ctx + ": ESmry reports " + std::to_string(a.numberOfTimeSteps()) + " ministeps, " + std::to_string(want.size()) + " were written"); return; }
            // vector-list path on a fresh reader: a random subset in random order
            {
                EclIO::ESmry b(smspec, load_base);
                std::vector<std::string> sub; std::vector<size_t> subi;
                for (size_t v = 0; v < keys.size(); ++v) if (g.chance(keys.size() < 20 ? 0.7 : 12.0 / static_cast<double>(keys.size())) || v + 1 == keys.size() || v == 999 || v == 1000 || v == 1001) { sub.push_back(keys[v]); subi.push_back(v); }
                for (size_t k = sub.size(); k > 1; --k) { size_t q = g.below(k); std::swap(sub[k - 1], sub[q]); std::swap(subi[k - 1], subi[q]); }
                b.loadData(sub);
                for (size_t k = 0; k < sub.size(); ++k) {
                    if (!b.hasKey(sub[k])) { r.fail("C10.esmry.key_missing" + sfx, ctx + ": vector " + sub[k] + " (#" + std::to_string(subi[k]) + ") cannot be found by the reader"); return; }
                    const auto& got = b.get(sub[k]);
                    if (got.size() != want.size()) { r.fail("C10.esmry.vectlist.size" + sfx, ctx + ": loadData(vectList) gives " + std::to_string(got.size()) + " values for " + sub[k]); return; }
                    for (size_t ms = 0; ms < want.size(); ++ms) if (!same(got[ms], want[ms][subi[k]])) { std::ostringstream o; o.precision(9); o << ctx << ": loadData(vectList): " << sub[k] << " (vector #" << subi[k] << " of " << keys.size() << ") at ministep " << ms << " reads " << got[ms] << ", written " << want[ms][subi[k]]; r.fail("C10.esmry.vectlist.value" + sfx, o.str()); return; }
                }
            }
            a.loadData();
            for (size_t v = 0; v < keys.size(); ++v) {
                if (!a.hasKey(keys[v])) { r.fail("C10.esmry.key_missing" + sfx, ctx + ": vector " + keys[v] + " (#" + std::to_string(v) + ") cannot be found by the reader"); return; }
                const auto& got = a.get(keys[v]);
                oh.bytes(got.data(), got.size() * 4);
                if (got.size() != want.size()) { r.fail("C10.esmry.size" + sfx, ctx + ": " + keys[v] + " has " + std::to_string(got.size()) + " values"); return; }
                for (size_t ms = 0; ms < want.size(); ++ms) if (!same(got[ms], want[ms][v])) { std::ostringstream o; o.precision(9); o << ctx << ": " << keys[v] << " (vector #" << v << " of " << keys.size() << ") at ministep " << ms << " reads " << got[ms] << ", written " << want[ms][v]; r.fail("C10.esmry.value" + sfx, o.str()); return; }
            }
            // report-step positions: values at the last ministep of each report step
            {
                std::vector<size_t> last_of; for (size_t ms = 0; ms < rstep_of.size(); ++ms) if (ms + 1 == rstep_of.size() || rstep_of[ms + 1] != rstep_of[ms]) last_of.push_back(ms);
                const size_t v = keys.size() > 1 ? 1 : 0;
                auto at = a.get_at_rstep(keys[v]);
                if (at.size() != last_of.size()) { r.fail("C10.esmry.rstep_count" + sfx, ctx + ": get_at_rstep gives " + std::to_string(at.size()) + " values for " + std::to_string(last_of.size()) + " report steps"); return; }
                for (size_t k = 0; k < at.size(); ++k) if (!same(at[k], want[last_of[k]][v])) { r.fail("C10.esmry.rstep_value" + sfx, ctx + ": get_at_rstep(" + keys[v] + ")[" + std::to_string(k) + "] is not the value of the last ministep of that report step"); return; }
            }
            // SMSPEC -> ESMRY conversion, read by ExtESmry
            if (try_esmry_conversion && !load_base) {
                EclIO::ESmry c(smspec, false);
                if (c.make_esmry_file()) {
                    std::string esm = smspec.substr(0, smspec.rfind('.')) + ".ESMRY";
                    EclIO::ExtESmry x(esm, false);
                    x.loadData();
                    if (x.numberOfTimeSteps() != want.size()) { r.fail("C10.conversion.nsteps" + sfx, ctx + ": converted ESMRY has " + std::to_string(x.numberOfTimeSteps()) + " ministeps"); return; }
                    for (size_t v = 0; v < keys.size(); ++v) {
                        if (!x.hasKey(keys[v])) { r.fail("C10.conversion.key_missing" + sfx, ctx + ": vector " + keys[v] + " missing from the converted ESMRY"); return; }
                        const auto& got = x.get(keys[v]);
                        for (size_t ms = 0; ms < want.size(); ++ms) if (got.size() != want.size() || !same(got[ms], want[ms][v])) { r.fail("C10.conversion.value" + sfx, ctx + ": " + keys[v] + " at ministep " + std::to_string(ms) + " differs in the converted ESMRY"); return; }
                    }
                    fs::passthrough(true); ::unlink(esm.c_str()); fs::passthrough(false);
                }
            }
        } catch (const std::exception& e) { r.fail("C10.reader_threw" + sfx + "." + msg_key(e.what()), ctx + ": a reader threw on files the writer produced: " + e.what()); }
    }

    RunResult execute(const Json& plan) override {
        RunResult r;
        const std::string root = getenv("VERIF_RUNDIR") ? getenv("VERIF_RUNDIR") : "/dev/shm/verif.run";
        fs::begin_run(root);
        Hash64 oh, sh;
        const std::string kind = plan.gets("kind", "smry");
        sh.str(kind);
        double sim_s = 0;
        Json sample = Json::object(); sample["kind"] = kind;
        if (kind == "smry") {
            const bool fmt = plan.getb("formatted"), unif = plan.getb("unified");
            Rng vg(static_cast<std::uint64_t>(plan.geti("vec_seed")));
            const int nv = static_cast<int>(plan.geti("nvec"));
            std::vector<Vec> vecs = make_vectors(nv, 4, 3, 2, vg);
            std::vector<std::string> keys; for (auto& v : vecs) keys.push_back(v.key);
            Rng rg(static_cast<std::uint64_t>(plan.geti("read_seed")));
            const auto start = Opm::TimeService::from_time_t(Opm::asTimeT(Opm::TimeStampUTC(2020, 3, 1)));
            // chain of runs: BASE, then RUN1 continuing BASE at n, then RUN2 continuing RUN1 …
            const int chain = static_cast<int>(plan.geti("chain"));
            std::vector<SynthRun> runs;
            std::vector<std::vector<float>> expect; std::vector<int> expect_r;
            double t0 = 0; int ms0 = 0; int first_report = 1;
            try {
                for (int c = 0; c <= chain; ++c) {
                    SynthRun run; run.base = c == 0 ? "BASE" : "RUN" + std::to_string(c); run.vecs = vecs; run.tag = c; run.first_report = first_report;
                    const Json& st = plan.at(c == 0 ? "steps" : "steps_b");
                    for (size_t k = 0; k < st.size(); ++k) run.steps.push_back(std::vector<int>(static_cast<size_t>(st[k].as_i()), 0));
                    std::string rroot = c == 0 ? "" : runs.back().base; int rstep = c == 0 ? 0 : first_report - 1;
                    fs::set_op(c);
                    write_synth(run, fmt, unif, rroot, rstep, start, t0, ms0);
                    runs.push_back(run);
                    // what a reader of this run with loadBaseRunData must return: previous expectation cut at the restart step, plus this run
                    if (c == 0) { expect = run.series; expect_r = run.rstep_of_ministep; }
                    else {
                        std::vector<std::vector<float>> e; std::vector<int> er;
                        for (size_t k = 0; k < expect.size(); ++k) if (expect_r[k] <= rstep) { e.push_back(expect[k]); er.push_back(expect_r[k]); }
                        for (size_t k = 0; k < run.series.size(); ++k) { e.push_back(run.series[k]); er.push_back(run.rstep_of_ministep[k]); }
                        expect = e; expect_r = er;
                    }
                    // next run restarts from a report step of this chain
                    const int last_r = run.first_report + static_cast<int>(run.steps.size()) - 1;
                    const int n = c == 0 ? 1 + static_cast<int>(plan.geti("restart_pick")) % last_r : last_r;
                    first_report = n + 1;
                    // time and ministep counters continue from the restart step
                    t0 = 0; ms0 = 0; for (size_t k = 0; k < expect.size(); ++k) if (expect_r[k] <= n) { t0 = expect[k][0]; ms0 = static_cast<int>(k) + 1; }
                }
            } catch (const std::exception& e) { r.fail("C10.writer_threw." + msg_key(e.what()), std::string("the summary writer threw: ") + e.what()); }
            if (r.violations.empty()) {
                // every run alone, and the last one with its base-run history
                for (size_t c = 0; c < runs.size() && r.violations.empty(); ++c) {
                    const std::string spec = runs[c].base + (fmt ? ".FSMSPEC" : ".SMSPEC");
                    check_readers(r, spec, false, keys, runs[c].series, runs[c].rstep_of_ministep, fmt, rg, oh, "run " + runs[c].base + " alone (" + std::to_string(nv) + " vectors)", c == 0);
                }
                if (chain > 0 && r.violations.empty()) {
                    const std::string spec = runs.back().base + (fmt ? ".FSMSPEC" : ".SMSPEC");
                    check_readers(r, spec, true, keys, expect, expect_r, fmt, rg, oh, "run " + runs.back().base + " with base-run history (chain of " + std::to_string(chain + 1) + ")", false);
                    ++r.counters["probe.base_run_chain"];
                }
                // every file also passes the independent codec
                for (auto& n : fs::listdir(".")) { try { std::string b = fs::slurp(n); if (fmt) codec::decode_formatted(b); else if (n.find(".ESMRY") == std::string::npos) codec::decode_unformatted(b); } catch (const codec::Error& e) { r.fail("C10.layout", n + ": " + e.what()); break; } }
            }
            if (nv >= 1000) ++r.counters["probe.params_crosses_1000_block"];
            if (nv % 1000 <= 3 || nv % 1000 >= 997) ++r.counters["probe.vector_count_at_block_edge"];
            sh.u64(static_cast<std::uint64_t>(nv)); sh.u64(fmt); sh.u64(unif); sh.u64(static_cast<std::uint64_t>(chain)); sh.u64(expect.size());
            r.nontrivial = expect.size() >= 2 || nv >= 1000;
            sample["nvec"] = nv; sample["formatted"] = fmt; sample["unified"] = unif; sample["chain"] = chain; sample["ministeps"] = static_cast<long long>(expect.size());
        } else {
            // ------------------------------------------------------------------------------------------ S-RUN
            Model m = generate_model(static_cast<std::uint64_t>(plan.geti("model_seed")), GenOpts::from_json(plan.at("gen")));
            if (plan.has("drops")) apply_drops(m, plan.at("drops"));
            RunCfg cfg; cfg.physics_seed = static_cast<std::uint64_t>(plan.geti("physics_seed")); cfg.esmry = true;
            for (size_t k = 0; k < plan.at("ministeps").size(); ++k) { std::vector<double> f; for (size_t q = 0; q < plan.at("ministeps")[k].size(); ++q) f.push_back(plan.at("ministeps")[k][q].as_d()); cfg.ministeps.push_back(f); }
            for (size_t k = 0; k < plan.at("wall_advance").size(); ++k) cfg.wall_advance.push_back(plan.at("wall_advance")[k].as_d());
            const std::string deck = deck_text(m);
            fs::note("deck", deck);
            if (getenv("VERIF_DUMP_DECK")) fs::spit("/tmp/deckA.DATA", deck);
            // recorder: what SummaryState holds when writeTimeStep is called, per ministep
            struct Rec : Observer {
                std::vector<std::pair<double, Opm::SummaryState>> rows; std::vector<int> rstep; std::vector<bool> sub;
                void after_write(World& w, int r, bool substep, double t, const Opm::RestartValue&) override { rows.emplace_back(t, *w.st); rstep.push_back(r); sub.push_back(substep); }
            } rec;
            std::unique_ptr<World> w;
            // P2: reader probe at every syscall boundary while the ESMRY (or its temporary) is being written: the file under its
            // final name must always load completely, and the number of ministeps it holds never decreases
            struct Snap { size_t k; std::vector<float> time; };
            std::vector<Snap> snaps; std::string p2_fail; long p2_probes = 0, p2_absent = 0;
            fs::set_hook([&](const std::string& cls, const std::string&, const std::string&) {
                if (cls != "ESMRY" && cls != "ESMRY_TMP") return;
                ++p2_probes;
                if (!fs::exists("BASE.ESMRY")) { ++p2_absent; return; }
                try {
                    EclIO::ExtESmry x("BASE.ESMRY", false); x.loadData();
                    Snap sn; sn.k = x.numberOfTimeSteps(); sn.time = x.get("TIME");
                    if (!snaps.empty() && sn.k < snaps.back().k && p2_fail.empty()) p2_fail = "BASE.ESMRY went from " + std::to_string(snaps.back().k) + " to " + std::to_string(sn.k) + " ministeps";
                    if (snaps.empty() || sn.k != snaps.back().k) snaps.push_back(sn);
                } catch (const std::exception& e) { if (p2_fail.empty()) p2_fail = std::string("a reader opening BASE.ESMRY while the writer was active threw: ") + e.what(); }
            });
            try {
                w = World::create(deck, cfg);
                w->write_initial();
                w->run(1, w->last_step(), &rec);
                sim_s = w->sim_seconds;
            } catch (const std::exception& e) { r.fail("C10.run_threw." + msg_key(e.what()), std::string("the run threw: ") + e.what()); }
            fs::set_hook(nullptr);
            if (r.violations.empty() && !p2_fail.empty()) r.fail("C10.run.esmry_reader_race", p2_fail);
            r.counters["probe.p2_reader_probes_at_syscall_boundaries"] = p2_probes;
            r.counters["probe.p2_distinct_esmry_states_seen"] = static_cast<long>(snaps.size());
            if (snaps.size() >= 2) ++r.counters["probe.esmry_rewritten_during_run"];
            if (p2_probes > 0 && snaps.size() <= 1) ++r.counters["probe.esmry_write_skipped_by_throttle_until_final"];
            if (r.violations.empty() && w) {
                const bool fmt = m.fmtout;
                const std::string spec = std::string("BASE.") + (fmt ? "FSMSPEC" : "SMSPEC");
                try {
                    EclIO::ESmry a(spec, false);
                    a.loadData();
                    const auto& time = a.get("TIME");
                    // the file's ministeps must be a subsequence of the recorded ones (RPTONLY / SUMTHIN drop substeps) holding every report step
                    std::vector<size_t> map; size_t q = 0;
                    const auto& us = w->es->getUnits();
                    for (size_t k = 0; k < time.size(); ++k) {
                        // TIME is accumulated by the evaluator from step lengths; it may differ from the absolute time by a rounding in the last place
                        auto near = [&](size_t qq) { const double tt = us.from_si(Opm::UnitSystem::measure::time, rec.rows[qq].first); return std::fabs(tt - static_cast<double>(time[k])) <= 2.4e-7 * std::fabs(tt); };
                        while (q < rec.rows.size() && !near(q)) ++q;
                        if (q == rec.rows.size()) { r.fail("C10.run.unknown_ministep", "summary file holds a ministep at TIME=" + std::to_string(time[k]) + " that the run never wrote (or out of order)"); break; }
                        map.push_back(q++);
                    }
                    if (r.violations.empty()) {
                        std::set<size_t> in_file(map.begin(), map.end());
                        for (size_t k = 0; k < rec.rows.size(); ++k) if (!rec.sub[k] && !in_file.count(k)) { r.fail("C10.run.report_step_missing", "the ministep ending report step " + std::to_string(rec.rstep[k]) + " is missing from the summary file"); break; }
                        if (!m.rptonly && m.sumthin == 0 && map.size() != rec.rows.size()) r.fail("C10.run.ministep_missing", "summary file holds " + std::to_string(map.size()) + " ministeps, " + std::to_string(rec.rows.size()) + " were written");
                    }
                    for (auto& sn : snaps) { if (sn.k > time.size() || std::memcmp(sn.time.data(), time.data(), sn.k * 4)) { r.fail("C10.run.esmry_not_a_prefix", "an intermediate BASE.ESMRY with " + std::to_string(sn.k) + " ministeps is not a prefix of the final series"); break; } }
                    long compared = 0;
                    if (r.violations.empty()) for (const auto& key : a.keywordList()) {
                        const auto& got = a.get(key);
                        for (size_t k = 0; k < map.size(); ++k) {
                            const auto& st = rec.rows[map[k]].second;
                            // SummaryState keys: W/G/F vectors and time vectors share the reader's key spelling
                            if (!st.has(key)) continue;
                            const float want = static_cast<float>(st.get(key));
                            ++compared;
                            const bool ok = fmt ? std::fabs(static_cast<double>(got[k]) - static_cast<double>(want)) <= 1.2e-7 * std::fabs(static_cast<double>(want)) : std::memcmp(&got[k], &want, 4) == 0;
                            if (!ok) { std::ostringstream o; o.precision(9); o << key << " at file ministep " << k << " reads " << got[k] << ", the writer was given " << want; r.fail(std::string("C10.run.value") + (fmt ? ".formatted" : ".unformatted"), o.str()); break; }
                        }
                        if (!r.violations.empty()) break;
                    }
                    r.counters["values_compared"] = compared;
                    // the writer's own ESMRY, read by ExtESmry: after the final summary it holds every ministep of the file
                    if (r.violations.empty() && !fmt && fs::exists("BASE.ESMRY")) {
                        EclIO::ExtESmry x("BASE.ESMRY", false); x.loadData();
                        if (x.numberOfTimeSteps() != time.size()) r.fail("C10.run.esmry_final_incomplete", "after the final summary BASE.ESMRY holds " + std::to_string(x.numberOfTimeSteps()) + " ministeps, the summary file " + std::to_string(time.size()));
                        else for (const auto& key : x.keywordList()) { if (!a.hasKey(key)) continue; const auto& g1 = x.get(key); const auto& g2 = a.get(key); if (g1.size() != g2.size() || std::memcmp(g1.data(), g2.data(), g1.size() * 4)) { if (!fmt) { r.fail("C10.run.esmry_value", "BASE.ESMRY differs from the summary file in " + key); break; } } }
                        // report-step positions: the legacy reader takes them from SEQHDR, the ESMRY reader from the RSTEP flags
                        if (r.violations.empty()) {
                            std::vector<float> want_rs; for (size_t k = 0; k < map.size(); ++k) if (!rec.sub[map[k]]) want_rs.push_back(time[k]);
                            const auto rs_legacy = a.get_at_rstep("TIME"); const auto rs_ext = x.get_at_rstep("TIME");
                            if (rs_legacy != want_rs) r.fail("C10.run.report_step_positions.legacy", "ESmry::get_at_rstep(TIME) gives " + std::to_string(rs_legacy.size()) + " report steps, the run wrote " + std::to_string(want_rs.size()) + " (or at other times)");
                            else if (rs_ext != want_rs) r.fail("C10.run.report_step_positions.esmry", "ExtESmry::get_at_rstep(TIME) on the writer's ESMRY gives " + std::to_string(rs_ext.size()) + " report steps, the run wrote " + std::to_string(want_rs.size()) + " (or at other times)");
                        }
                        ++r.counters["probe.esmry_read"];
                    } else if (r.violations.empty() && fmt) ++r.counters["probe.esmry_request_ignored_for_formatted_output"];
                    else if (r.violations.empty()) r.fail("C10.run.esmry_missing", "writeEsmry was requested but BASE.ESMRY does not exist after the final summary");
                    // ---- a run that continues the base run: with the base-run history loaded it reads as the base run's ministeps up to the
                    //      restart step followed by its own; checked for the legacy reader and, for unformatted output, the ESMRY reader
                    const int last_step = w->last_step();
                    if (r.violations.empty() && plan.geti("continue_pick", 0) > 0 && last_step >= 2) {
                        const int n = 1 + static_cast<int>(plan.geti("continue_pick") % (last_step - 1));      // 1 .. last-1
                        std::unique_ptr<World> B; bool built = false;
                        try {
                            DeckOpts dopt; dopt.restart_step = n; dopt.restart_base = "BASE"; dopt.skiprest = true;
                            RunCfg cfgB = cfg; cfgB.base = "CONT";
                            B = World::create(deck_text(m, dopt), cfgB, n);
                            B->run(n + 1, last_step, nullptr);
                            built = true;
                        } catch (const std::exception&) { ++r.counters["probe.continuation_run_unavailable"]; }      // building a restarted run is C05's subject
                        B.reset();
                        if (built) {
                            const std::string specB = std::string("CONT.") + (fmt ? "FSMSPEC" : "SMSPEC");
                            EclIO::ESmry own(specB, false); own.loadData();
                            EclIO::ESmry all(specB, true); all.loadData();
                            size_t prefix = 0; for (size_t k = 0; k < map.size(); ++k) if (rec.rstep[map[k]] <= n) prefix = k + 1;
                            const size_t nown = own.numberOfTimeSteps();
                            if (all.numberOfTimeSteps() != prefix + nown) r.fail("C10.continue.length", "run continued from report step " + std::to_string(n) + ": with base-run history " + std::to_string(all.numberOfTimeSteps()) + " ministeps, expected " + std::to_string(prefix) + " of the base run + " + std::to_string(nown) + " own");
                            else for (const auto& key : own.keywordList()) {
                                if (!a.hasKey(key) || !all.hasKey(key)) continue;
                                const auto& g = all.get(key); const auto& ga = a.get(key); const auto& go = own.get(key);
                                bool ok = g.size() == prefix + nown && (prefix == 0 || std::memcmp(g.data(), ga.data(), prefix * 4) == 0) && (nown == 0 || std::memcmp(g.data() + prefix, go.data(), nown * 4) == 0);
                                if (!ok) { r.fail("C10.continue.value", "run continued from report step " + std::to_string(n) + ": " + key + " with base-run history is not the base run's first " + std::to_string(prefix) + " ministeps followed by the run's own " + std::to_string(nown)); break; }
                                ++compared;
                            }
                            if (r.violations.empty() && !fmt && fs::exists("CONT.ESMRY") && fs::exists("BASE.ESMRY")) {
                                EclIO::ExtESmry x("CONT.ESMRY", true); x.loadData();
                                if (x.numberOfTimeSteps() != prefix + nown) r.fail("C10.continue.esmry_length", "CONT.ESMRY with base-run history holds " + std::to_string(x.numberOfTimeSteps()) + " ministeps, expected " + std::to_string(prefix + nown));
                                else for (const auto& key : x.keywordList()) { if (!all.hasKey(key)) continue; const auto& g1 = x.get(key); const auto& g2 = all.get(key); if (g1.size() != g2.size() || std::memcmp(g1.data(), g2.data(), g1.size() * 4)) { r.fail("C10.continue.esmry_value", "CONT.ESMRY with base-run history differs from the legacy reader in " + key); break; } }
                                ++r.counters["probe.continuation_esmry_chain_read"];
                            }
                            ++r.counters["probe.continuation_run_read_with_base_history"];
                            sh.u64(static_cast<std::uint64_t>(n));
                        }
                    }
                    if (m.rptonly) ++r.counters["probe.rptonly"]; if (m.sumthin > 0) ++r.counters["probe.sumthin"];
                    sample["ministeps_written"] = static_cast<long long>(rec.rows.size()); sample["ministeps_in_file"] = static_cast<long long>(map.size()); sample["vectors"] = static_cast<long long>(a.keywordList().size());
                    sh.u64(map.size()); sh.u64(a.keywordList().size()); sh.u64(fmt); sh.u64(m.unifout);
                    for (double wa : cfg.wall_advance) { sh.u64(wa >= 15 ? 2 : wa > 0 ? 1 : wa < 0 ? 3 : 0); if (wa < 0) ++r.counters["fault.clock_jump_backwards"]; }
                    r.nontrivial = map.size() >= 2;
                } catch (const std::exception& e) { r.fail("C10.reader_threw." + msg_key(e.what()), std::string("a reader threw on files the run produced: ") + e.what()); }
            }
            w.reset();
        }
        for (auto& kv : fs::counters()) r.counters[kv.first] += kv.second;
        r.counters["wall_clock_reads"] = clk::reads();
        Hash64 fin; fin.u64(fs::log_hash()); fin.u64(oh.h); r.hash = fin.h; r.shape = sh.h; r.sim_seconds = sim_s; r.sample = sample;
        fs::end_run(true);
        return r;
    }
};

} // namespace

int main(int argc, char** argv) { C10 sc; return sim::worker_main(argc, argv, sc); }
