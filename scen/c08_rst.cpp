// S-RST — C08: unified restart files under rewinds and crashes (DESIGN section 5, C08).
//
// A history is a list of report-step writes into one directory, each through a new
// OutputStream::Restart (as EclipseIO does per report step).  Reference model:
// map<step,payload>; write(s,P) erases all keys >= s and inserts (s,P).
// Every value of every array carries the unique id of the write that produced it.
#include "../simcore/runner.hpp"
#include "../simcore/eclcodec.hpp"

#include <opm/io/eclipse/ERst.hpp>
#include <opm/io/eclipse/EclFile.hpp>
#include <opm/io/eclipse/OutputStream.hpp>
#include <opm/io/eclipse/PaddedOutputString.hpp>

#include <algorithm>
#include <cmath>
#include <cstring>
#include <map>
#include <memory>
#include <sstream>

using namespace sim;
namespace EclIO = Opm::EclIO;

namespace {

struct Arr {
    std::string name; char type;     // I R D L C M
    std::vector<int> iv; std::vector<float> rv; std::vector<double> dv; std::vector<bool> lv; std::vector<std::string> cv;
    long size() const { switch (type) { case 'I': return iv.size(); case 'R': return rv.size(); case 'D': return dv.size(); case 'L': return lv.size(); case 'C': return cv.size(); default: return 0; } }
    EclIO::eclArrType etype() const { switch (type) { case 'I': return EclIO::INTE; case 'R': return EclIO::REAL; case 'D': return EclIO::DOUB; case 'L': return EclIO::LOGI; case 'C': return EclIO::CHAR; default: return EclIO::MESS; } }
};
struct Payload { int id = 0; int step = 0; std::vector<Arr> arrays; };

// plan: write = {step, id, arrays:[{t:"I", n:len}]}
Payload make_payload(const Json& w) {
    Payload p; p.id = static_cast<int>(w.geti("id")); p.step = static_cast<int>(w.geti("step"));
    const Json& as = w.at("arrays");
    for (size_t k = 0; k < as.size(); ++k) {
        Arr a; a.type = as[k].gets("t", "I")[0];
        long n = as[k].geti("n");
        a.name = std::string(1, a.type) + "ARR" + std::to_string(k);
        if (k == 0 && a.type == 'I') a.name = "INTEHEAD";
        std::uint64_t base = mix64(static_cast<std::uint64_t>(p.id) * 1000003ULL + k);
        for (long e = 0; e < n; ++e) {
            switch (a.type) {
            case 'I': a.iv.push_back(p.id * 100000 + static_cast<int>(k) * 10000 + static_cast<int>(e % 10000)); break;
            case 'R': a.rv.push_back(static_cast<float>(p.id) * 1024.0f + static_cast<float>(k) * 64.0f + static_cast<float>(e % 4096) / 64.0f); break;
            case 'D': a.dv.push_back(static_cast<double>(p.id) * 1e6 + static_cast<double>(k) * 1e4 + static_cast<double>(e) + 0.1); break;
            case 'L': a.lv.push_back(((mix64(base + static_cast<std::uint64_t>(e)) >> 7) & 1) != 0); break;
            case 'C': { char b[16]; std::snprintf(b, sizeof b, "%d_%d_%ld", p.id % 100, static_cast<int>(k), e % 1000); std::string s = b; if (s.size() > 8) s.resize(8); a.cv.push_back(s); break; }
            default: break;
            }
        }
        if (a.type == 'M') a.name = "MESS" + std::to_string(k);
        p.arrays.push_back(std::move(a));
    }
    return p;
}

const char* kBase = "CASE";
std::string unrst_name(bool fmt) { return std::string(kBase) + (fmt ? ".FUNRST" : ".UNRST"); }

void write_step(const std::string& dir, const Payload& p, bool fmt) {
    EclIO::OutputStream::Restart rst{EclIO::OutputStream::ResultSet{dir, kBase}, p.step,
                                     EclIO::OutputStream::Formatted{fmt}, EclIO::OutputStream::Unified{true}};
    for (auto& a : p.arrays) {
        switch (a.type) {
        case 'I': rst.write(a.name, a.iv); break;
        case 'R': rst.write(a.name, a.rv); break;
        case 'D': rst.write(a.name, a.dv); break;
        case 'L': rst.write(a.name, a.lv); break;
        case 'C': rst.write(a.name, a.cv); break;
        default: rst.message(a.name); break;
        }
    }
}

using Model = std::map<int, Payload>;
void model_write(Model& m, const Payload& p) { m.erase(m.lower_bound(p.step), m.end()); m[p.step] = p; }

template <class T> bool same_bits(const std::vector<T>& a, const std::vector<T>& b) {
    if (a.size() != b.size()) return false;
    return a.empty() || !std::memcmp(a.data(), b.data(), a.size() * sizeof(T));
}

// Compare one array read from `rst` at (step) against the payload.  returns: 0 equal, 1 threw, 2 WRONG
int read_and_compare(EclIO::ERst& rst, int step, const Arr& a, Hash64& h, std::string& why) {
    try {
        switch (a.type) {
        case 'I': { auto& v = rst.getRestartData<int>(a.name, step, 0); h.bytes(v.data(), v.size() * 4); if (!same_bits(v, a.iv)) { why = a.name + " int data differ"; return 2; } break; }
        case 'R': { auto& v = rst.getRestartData<float>(a.name, step, 0); h.bytes(v.data(), v.size() * 4); if (!same_bits(v, a.rv)) { why = a.name + " float data differ"; return 2; } break; }
        case 'D': { auto& v = rst.getRestartData<double>(a.name, step, 0); h.bytes(v.data(), v.size() * 8); if (!same_bits(v, a.dv)) { why = a.name + " double data differ"; return 2; } break; }
        case 'L': { auto& v = rst.getRestartData<bool>(a.name, step, 0); if (v != a.lv) { why = a.name + " bool data differ"; return 2; } break; }
        case 'C': { auto& v = rst.getRestartData<std::string>(a.name, step, 0); for (auto& s : v) h.str(s); if (v != a.cv) { why = a.name + " string data differ"; return 2; } break; }
        default: break;
        }
    } catch (const std::exception&) { return 1; }
    return 0;
}

struct ImageStats { long opened = 0, open_threw = 0, arrays_exact = 0, arrays_threw = 0, steps_seen = 0, steps_unjudged = 0; };

// Crash oracle on one image.  `accept[s]` = payloads that the history may legitimately have left at step s.
// Returns "" or a violation sub-class; detail in `why`.
// `judge_below`: only steps smaller than this are judged (crash_continue: a new process appended to a torn file; the
// statement promises nothing about steps at or above the torn one, so they are read - memory safety - but not judged).
std::string check_crash_image(const std::string& file, const std::map<int, std::vector<const Payload*>>& accept,
                              ImageStats& st, Hash64& h, std::string& why, int judge_below = 1 << 30) {
    std::unique_ptr<EclIO::ERst> rst;
    try { rst = std::make_unique<EclIO::ERst>(file); }
    catch (const std::exception&) { ++st.open_threw; h.u64(0xdead); return ""; }
    ++st.opened;
    std::vector<int> steps = rst->listOfReportStepNumbers();
    for (size_t k = 0; k < steps.size(); ++k) {
        h.u64(static_cast<std::uint64_t>(steps[k]));
        if (steps[k] >= judge_below) continue;
        if (k && steps[k] <= steps[k - 1]) { why = "report steps not strictly increasing"; return "steps_order"; }
        if (!accept.count(steps[k])) { why = "step " + std::to_string(steps[k]) + " listed but never written"; return "phantom_step"; }
    }
    for (int s : steps) {
        ++st.steps_seen;
        std::vector<EclIO::EclFile::EclEntry> list;
        try { list = rst->listOfRstArrays(s); } catch (const std::exception&) { continue; }
        if (s >= judge_below || !accept.count(s)) {
            // not judged: exercise the read paths only
            for (auto& e : list) { try { if (std::get<1>(e) == EclIO::INTE) { auto& v = rst->getRestartData<int>(std::get<0>(e), s, 0); h.u64(v.size()); } } catch (const std::exception&) {} }
            ++st.steps_unjudged;
            continue;
        }
        std::vector<const Payload*> cands = accept.at(s);
        // the listed arrays must be a prefix of SEQNUM + payload arrays of at least one candidate
        for (size_t k = 0; k < list.size(); ++k) {
            std::vector<const Payload*> keep;
            for (auto* p : cands) {
                if (k == 0) { if (std::get<0>(list[0]) == "SEQNUM") keep.push_back(p); continue; }
                if (k - 1 >= p->arrays.size()) continue;
                const Arr& a = p->arrays[k - 1];
                if (std::get<0>(list[k]) == a.name && std::get<1>(list[k]) == a.etype() && std::get<2>(list[k]) == a.size()) keep.push_back(p);
            }
            if (keep.empty()) { why = "step " + std::to_string(s) + ": array #" + std::to_string(k) + " '" + std::get<0>(list[k]) + "' was never written there"; return "phantom_array"; }
            cands = keep;
        }
        // SEQNUM value
        try { auto& v = rst->getRestartData<int>("SEQNUM", s, 0); if (v.size() != 1 || v[0] != s) { why = "SEQNUM value differs"; return "wrong_data"; } }
        catch (const std::exception&) { ++st.arrays_threw; }
        for (size_t k = 1; k < list.size(); ++k) {
            std::vector<const Payload*> keep; bool threw = false; std::string w;
            for (auto* p : cands) {
                int rc = read_and_compare(*rst, s, p->arrays[k - 1], h, w);
                if (rc == 1) { threw = true; break; }
                if (rc == 0) keep.push_back(p);
            }
            if (threw) { ++st.arrays_threw; continue; }
            if (keep.empty()) { why = "step " + std::to_string(s) + ": " + w + " (returned without error)"; return "wrong_data"; }
            ++st.arrays_exact;
            cands = keep;
        }
        // whole-step load must not change the verdicts
        try { rst->loadReportStepNumber(s); } catch (const std::exception&) {}
    }
    return "";
}

struct C08 : Scenario {
    std::string id() const override { return "C08"; }
    Json hint;   // failing crash site of the last execution (used by shrink)

    Json describe() override {
        Json j = Json::object();
        j["scenario"] = "S-RST";
        j["real"] = "OutputStream::Restart, EclOutput, ERst, EclFile, libstdc++ filebuf, std::filesystem::resize_file";
        j["stub"] = "payload producer (synthetic arrays carrying a unique write id); kernel file system behind the simfs outcome layer";
        return j;
    }

    Json generate(Rng& rng, const std::string& tier, std::uint64_t run) override {
        Json p = Json::object();
        p["scenario"] = "S-RST";
        // modes: rewind (fault-free, formatted or not) | crash (unformatted; in-flight + truncation sweep) | crash_continue
        int m = static_cast<int>(run % 4);
        std::string mode = m == 0 ? "rewind" : m == 1 ? "crash" : m == 2 ? "rewind" : "crash_continue";
        bool fmt = (mode == "rewind") && (run % 8 >= 4);
        p["mode"] = mode; p["formatted"] = fmt;
        int L = static_cast<int>(rng.range(1, tier == "thorough" ? 8 : 6));
        int N = static_cast<int>(rng.range(1, 6));
        static const long lens_num[] = {0, 1, 2, 3, 7, 999, 1000, 1001, 1999, 2000, 2001, 2002};
        static const long lens_chr[] = {0, 1, 2, 104, 105, 106, 209, 210, 211, 212};
        Json ws = Json::array();
        int prev = 0;
        for (int k = 0; k < L; ++k) {
            Json w = Json::object();
            int step;
            double u = rng.unit();
            if (k == 0) step = static_cast<int>(rng.range(0, 2));
            else if (u < 0.5) step = prev + 1 + (rng.chance(0.2) ? 1 : 0);       // advance (sometimes skipping a number)
            else if (u < 0.65) step = prev;                                     // rewrite the same step
            else step = static_cast<int>(rng.range(0, std::max(0, prev)));     // rewind
            if (step > N + 2) step = static_cast<int>(rng.range(0, N));
            prev = step;
            w["step"] = step; w["id"] = k + 1;
            Json as = Json::array();
            int na = static_cast<int>(rng.range(1, 6));
            bool long_used = false;
            for (int q = 0; q < na; ++q) {
                Json a = Json::object();
                static const char* types[] = {"I", "R", "D", "L", "C", "M"};
                std::string t = q == 0 ? "I" : types[rng.below(6)];
                long n;
                if (t == "M") n = 0;
                else if (t == "C") n = rng.chance(0.5) ? lens_chr[rng.below(10)] : rng.range(0, 12);
                else if (!long_used && rng.chance(0.35)) { n = lens_num[rng.below(12)]; long_used = n > 900; }
                else n = rng.range(q == 0 ? 1 : 0, 40);
                if (q == 0 && n == 0) n = 3;
                a["t"] = t; a["n"] = n;
                as.push(a);
            }
            w["arrays"] = as;
            ws.push(w);
        }
        p["writes"] = ws;
        if (mode == "crash_continue") p["crash_at"] = static_cast<int>(rng.below(static_cast<std::uint64_t>(L)));
        // quick: sampled truncation offsets; thorough: all
        p["trunc"] = tier == "thorough" ? "all" : "sample";
        p["trunc_seed"] = static_cast<long long>(rng.next() >> 8);
        return p;
    }

    std::vector<Json> shrink(const Json& plan) override {
        std::vector<Json> out;
        if (!hint.is_null() && !plan.has("site")) { Json p = plan; p["site"] = hint; p["trunc"] = "none"; out.push_back(p); }
        if (!hint.is_null() && hint.has("trunc_at") && plan.gets("trunc") != "one") { Json p = plan; p["trunc"] = "one"; p["trunc_at"] = hint.at("trunc_at"); p["site"] = Json::object(); out.push_back(p); }
        shrink_array(plan, "writes", out, 1);
        // drop arrays / shorten arrays
        const Json& ws = plan.at("writes");
        for (size_t w = 0; w < ws.size(); ++w) {
            const Json& as = ws[w].at("arrays");
            for (size_t q = as.size(); q-- > 1;) {
                Json p = plan; Json na = Json::array();
                for (size_t z = 0; z < as.size(); ++z) if (z != q) na.push(as[z]);
                p["writes"][w]["arrays"] = na; out.push_back(p);
            }
            for (size_t q = 0; q < as.size(); ++q) if (as[q].geti("n") > 3) { Json p = plan; p["writes"][w]["arrays"][q]["n"] = as[q].geti("n") > 1002 ? 1001 : 2; out.push_back(p); }
        }
        if (plan.has("crash_at") && plan.geti("crash_at") > 0) { Json p = plan; p["crash_at"] = plan.geti("crash_at") - 1; out.push_back(p); }
        return out;
    }

    RunResult execute(const Json& plan) override {
        RunResult r;
        hint = Json();
        const std::string root = getenv("VERIF_RUNDIR") ? getenv("VERIF_RUNDIR") : "/dev/shm/verif.run";
        fs::begin_run(root);
        const bool fmt = plan.getb("formatted");
        const std::string mode = plan.gets("mode", "rewind");
        const Json& ws = plan.at("writes");
        std::vector<Payload> pay;
        for (size_t k = 0; k < ws.size(); ++k) pay.push_back(make_payload(ws[k]));
        const std::string file = unrst_name(fmt);
        Hash64 oh;     // oracle-input hash: everything the readers returned
        Hash64 shape; shape.str(mode); shape.u64(fmt);

        // ------------------------------------------------------------------ fault-free history (always)
        Model model;
        fs::mkdirs("A");
        long rewinds = 0, removed_later = 0;
        std::vector<std::string> image_before;     // file bytes before write k
        for (size_t k = 0; k < pay.size() && r.violations.empty(); ++k) {
            fs::set_op(static_cast<int>(k));
            const Payload& p = pay[k];
            std::string before = fs::slurp("A/" + file);
            image_before.push_back(before);
            Model prev = model;
            fs::note("write", static_cast<std::uint64_t>(p.step) * 1000 + static_cast<std::uint64_t>(p.id));
            try { write_step("A", p, fmt); }
            catch (const std::exception& e) { r.fail("C08.write_threw", std::string("fault-free write threw: ") + e.what()); break; }
            model_write(model, p);
            if (!prev.empty() && prev.rbegin()->first >= p.step) { ++rewinds; if (prev.rbegin()->first > p.step) ++removed_later; }
            shape.u64(static_cast<std::uint64_t>(prev.empty() ? 0 : (p.step > prev.rbegin()->first ? 1 : p.step == prev.rbegin()->first ? 2 : 3)));
            std::string after = fs::slurp("A/" + file);
            const std::string sfx = fmt ? ".formatted" : ".unformatted";

            // (a) steps listed == model keys, strictly increasing, s last
            try {
                EclIO::ERst rst("A/" + file);
                std::vector<int> steps = rst.listOfReportStepNumbers(), want;
                for (auto& kv : model) want.push_back(kv.first);
                for (int s : steps) oh.u64(static_cast<std::uint64_t>(s));
                if (steps != want) {
                    std::ostringstream o; o << "after write #" << k << " (step " << p.step << "): file lists";
                    for (int s : steps) o << ' ' << s;
                    o << " ; model holds";
                    for (int s : want) o << ' ' << s;
                    r.fail("C08.rewind.steps" + sfx, o.str()); break;
                }
                // (b) every array of every step reads back equal to the model payload
                for (auto& kv : model) {
                    auto list = rst.listOfRstArrays(kv.first);
                    if (list.size() != kv.second.arrays.size() + 1) { r.fail("C08.rewind.array_list" + sfx, "step " + std::to_string(kv.first) + ": number of arrays differs"); break; }
                    for (size_t q = 0; q < kv.second.arrays.size(); ++q) {
                        const Arr& a = kv.second.arrays[q];
                        if (std::get<0>(list[q + 1]) != a.name || std::get<1>(list[q + 1]) != a.etype() || std::get<2>(list[q + 1]) != a.size()) {
                            r.fail("C08.rewind.array_list" + sfx, "step " + std::to_string(kv.first) + ": entry " + a.name + " differs"); break; }
                        if (fmt && (a.type == 'R' || a.type == 'D')) {
                            // formatted: printed precision
                            bool ok = true;
                            if (a.type == 'R') { auto& v = rst.getRestartData<float>(a.name, kv.first, 0); ok = v.size() == a.rv.size(); for (size_t e = 0; ok && e < v.size(); ++e) ok = std::fabs(v[e] - a.rv[e]) <= 1e-7f * std::fabs(a.rv[e]); }
                            else { auto& v = rst.getRestartData<double>(a.name, kv.first, 0); ok = v.size() == a.dv.size(); for (size_t e = 0; ok && e < v.size(); ++e) ok = std::fabs(v[e] - a.dv[e]) <= 1e-13 * std::fabs(a.dv[e]); }
                            if (!ok) { r.fail("C08.rewind.readback" + sfx, "step " + std::to_string(kv.first) + " " + a.name + " differs beyond printed precision"); break; }
                        } else {
                            std::string why; int rc = read_and_compare(rst, kv.first, a, oh, why);
                            if (rc) { r.fail("C08.rewind.readback" + sfx, "step " + std::to_string(kv.first) + ": " + (rc == 1 ? a.name + " threw" : why)); break; }
                        }
                    }
                    if (!r.violations.empty()) break;
                }
            } catch (const std::exception& e) { r.fail("C08.rewind.reader_threw" + sfx, std::string("reader threw on a completely written file: ") + e.what()); }
            if (!r.violations.empty()) break;

            // (d) every step < s is preserved byte for byte: the new file and the old file share the prefix
            //     that held the steps below s.  Prefix length = bytes of fresh(model restricted to < s).
            // (c) file == fresh file of the surviving steps
            fs::remove_tree("F"); fs::mkdirs("F");
            std::string fresh_below;
            {
                fs::set_op(5000 + static_cast<int>(k));
                for (auto& kv : model) {
                    if (kv.first == p.step) fresh_below = fs::slurp("F/" + file);
                    write_step("F", kv.second, fmt);
                }
            }
            std::string fresh = fs::slurp("F/" + file);
            if (before.size() >= fresh_below.size() && after.compare(0, fresh_below.size(), before, 0, fresh_below.size()) != 0) {
                r.fail("C08.rewind.earlier_steps_changed" + sfx, "after write #" + std::to_string(k) + " (step " + std::to_string(p.step) + "): bytes of steps below it changed"); break;
            }
            if (after != fresh) {
                size_t d = 0; while (d < after.size() && d < fresh.size() && after[d] == fresh[d]) ++d;
                std::ostringstream o; o << "after write #" << k << " (step " << p.step << "): file has " << after.size() << " bytes, fresh file of surviving steps has " << fresh.size() << "; first difference at byte " << d;
                r.fail("C08.rewind.fresh_bytes" + sfx, o.str()); break;
            }
        }
        r.counters["writes"] = static_cast<long>(pay.size());
        r.counters["probe.rewind"] = rewinds;
        r.counters["probe.rewind_removed_later_step"] = removed_later;
        r.nontrivial = rewinds > 0;

        // ------------------------------------------------------------------ crash configurations (unformatted only)
        ImageStats st;
        if (r.violations.empty() && !fmt && mode != "rewind" && !pay.empty()) {
            r.nontrivial = true;
            const size_t last = (mode == "crash_continue") ? static_cast<size_t>(plan.geti("crash_at")) % pay.size() : pay.size() - 1;
            // acceptable payloads per step: everything the history ever put there (narrowed below for plain crash mode)
            std::map<int, std::vector<const Payload*>> accept;
            Model pre;
            for (size_t k = 0; k < last; ++k) model_write(pre, pay[k]);
            if (mode == "crash") {
                for (auto& kv : pre) accept[kv.first].push_back(&kv.second);
                accept[pay[last].step].push_back(&pay[last]);
            } else {
                // crash_continue: only the steps below the in-flight one are judged; their bytes were complete before the crash
                // (a continuing process may also write such steps later: every payload the history ever puts there is acceptable)
                for (size_t k = 0; k < pay.size(); ++k) if (k != last && pay[k].step < pay[last].step) accept[pay[k].step].push_back(&pay[k]);
            }
            // syscalls of the in-flight write, measured on the fault-free twin (op index == write index)
            const long sites = fs::mut_calls(static_cast<int>(last));
            r.counters["crash.sites"] = sites;
            static const long torn_args[] = {0, 1, -2, -1};     // -2 = middle, -1 = len-1 (resolved modulo len+1 in simfs)
            struct Site { long nth; std::string kind; long arg; };
            std::vector<Site> todo;
            if (plan.has("site") && plan.at("site").has("nth")) {
                const Json& s = plan.at("site"); todo.push_back({static_cast<long>(s.geti("nth")), s.gets("kind"), static_cast<long>(s.geti("arg"))});
            } else if (!plan.has("site")) {
                for (long n = 0; n < sites; ++n) {
                    todo.push_back({n, "crash_before", 0});
                    for (long a : torn_args) todo.push_back({n, "torn", a});
                    if (plan.gets("trunc") == "all") for (long a = 2; a < 40; a += 3) todo.push_back({n, "torn", a});
                }
            }
            int site_no = 0;
            for (auto& site : todo) {
                const int fault_op = 10000 + 2 * (site_no++);    // fresh op index per site: per-op syscall counters start at 0
                // re-run the history up to `last` in a fresh directory, with the fault armed on the in-flight write
                fs::remove_tree("B"); fs::mkdirs("B");
                fs::set_op(1000);
                for (size_t k = 0; k < last; ++k) write_step("B", pay[k], fmt);
                long arg = site.arg;
                Fault f; f.op = fault_op; f.cls = "*"; f.nth = site.nth; f.kind = site.kind;
                f.arg = arg;
                fs::set_op(fault_op);
                fs::arm({f});
                try { write_step("B", pay[last], fmt); } catch (const std::exception&) {}
                bool fired = !fs::faults().empty() && fs::faults()[0].fired;
                fs::arm({});
                std::string img = fs::slurp("B/" + file);
                fs::revive();
                fs::set_op(3000);
                if (!fired) continue;
                ++r.counters["crash.images"];
                ++r.counters[std::string("fault.") + site.kind + ".fired"];
                // classify the image state
                std::string pre_img = last < image_before.size() ? image_before[last] : "";
                if (img == pre_img) ++r.counters["probe.crash.old_tail_still_present"];
                else if (img.size() < pre_img.size() && !pre_img.compare(0, img.size(), img)) ++r.counters["probe.crash.between_truncate_and_append"];
                else ++r.counters["probe.crash.new_data_partial"];
                shape.u64(mix64(static_cast<std::uint64_t>(site.nth) * 31 + (site.kind == "torn" ? 7 : 3)));
                if (mode == "crash_continue") {
                    // a new process continues the history on the crash image
                    bool stopped = false;
                    for (size_t k = last + 1; k < pay.size(); ++k) {
                        try { write_step("B", pay[k], fmt); } catch (const std::exception&) { stopped = true; break; }
                    }
                    if (!stopped && last + 1 < pay.size()) ++r.counters["probe.crash.continued_on_image"];
                }
                std::string why;
                std::string sub = check_crash_image("B/" + file, accept, st, oh, why, mode == "crash_continue" ? pay[last].step : (1 << 30));
                if (!sub.empty()) {
                    std::ostringstream o; o << mode << ": in-flight write #" << last << " (step " << pay[last].step << ") killed at mutating call " << site.nth << " (" << site.kind << ", arg " << site.arg << "): " << why;
                    r.fail("C08.crash." + sub, o.str());
                    hint = Json::object(); hint["nth"] = site.nth; hint["kind"] = site.kind; hint["arg"] = site.arg;
                    break;
                }
            }
            // post-hoc truncation of the final clean file
            if (r.violations.empty() && mode == "crash" && plan.gets("trunc", "sample") != "none") {
                std::string full = fs::slurp("A/" + file);
                std::map<int, std::vector<const Payload*>> acc2;
                for (auto& kv : model) acc2[kv.first].push_back(&kv.second);
                std::vector<size_t> offs;
                if (plan.gets("trunc") == "all") { for (size_t t = 0; t < full.size(); ++t) offs.push_back(t); }
                else if (plan.gets("trunc") == "one") offs.push_back(static_cast<size_t>(plan.geti("trunc_at")) % (full.size() + 1));
                else {
                    Rng tr(static_cast<std::uint64_t>(plan.geti("trunc_seed")));
                    for (int q = 0; q < 96 && !full.empty(); ++q) offs.push_back(tr.below(full.size()));
                    // structural offsets from the independent decoder: header starts, data starts, array ends and every sub-block boundary
                    // (+-1, +-4) - a cut there leaves complete-looking records behind, the case a size-arithmetic reader is most likely to get wrong
                    try {
                        for (const auto& arr : codec::decode_unformatted(full)) {
                            std::vector<size_t> marks = {arr.header_off, arr.data_off, arr.end_off};
                            int es; long maxb; codec::type_info(arr.type, es, maxb);
                            if (es > 0 && arr.count > maxb) for (long b = 1; b * maxb < arr.count + maxb; ++b) marks.push_back(arr.data_off + static_cast<size_t>(b) * (static_cast<size_t>(maxb) * static_cast<size_t>(es) + 8));
                            for (size_t mk : marks) for (long d : {-4L, -1L, 0L, 1L, 4L}) { long long o = static_cast<long long>(mk) + d; if (o >= 0 && o < static_cast<long long>(full.size())) offs.push_back(static_cast<size_t>(o)); }
                        }
                    } catch (const codec::Error&) {}
                    for (size_t t = 0; t < std::min<size_t>(full.size(), 64); ++t) offs.push_back(t);
                    for (size_t t = full.size() > 64 ? full.size() - 64 : 0; t < full.size(); ++t) offs.push_back(t);
                }
                for (size_t t : offs) {
                    fs::spit("T.UNRST", full.substr(0, t));
                    ++r.counters["trunc.images"];
                    std::string why;
                    std::string sub = check_crash_image("T.UNRST", acc2, st, oh, why);
                    if (!sub.empty()) {
                        r.fail("C08.trunc." + sub, "clean file of " + std::to_string(full.size()) + " bytes cut at byte " + std::to_string(t) + ": " + why);
                        hint = Json::object(); hint["trunc_at"] = static_cast<long long>(t);
                        break;
                    }
                }
            }
        }
        r.counters["img.opened"] = st.opened; r.counters["img.open_threw"] = st.open_threw;
        r.counters["img.steps_not_judged"] = st.steps_unjudged;
        r.counters["img.arrays_exact"] = st.arrays_exact; r.counters["img.arrays_threw"] = st.arrays_threw;
        for (auto& kv : fs::counters()) r.counters[kv.first] += kv.second;
        Hash64 fin; fin.u64(fs::log_hash()); fin.u64(oh.h);
        r.hash = fin.h;
        r.shape = shape.h;
        Json s = Json::object();
        s["mode"] = mode; s["formatted"] = fmt;
        Json steps = Json::array(); for (auto& p : pay) steps.push(p.step);
        s["steps_written"] = steps; s["crash_images"] = r.counters["crash.images"]; s["trunc_images"] = r.counters["trunc.images"];
        r.sample = s;
        fs::end_run(true);
        return r;
    }
};

} // namespace

int main(int argc, char** argv) { C08 sc; return sim::worker_main(argc, argv, sc); }
