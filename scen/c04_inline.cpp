// C04 — applying an ACTIONX equals inlining its keywords; earlier steps are immutable (DESIGN 5/C04).
// The history of applications [(action, n, matching wells)] is whatever the simulated run produces (it depends on the
// ministep plan, on the physics stub and on earlier actions).  After the run the generator inlines every recorded
// application as text at the end of block n of the original deck, in firing order, builds Schedule(D_inlined) with the
// stock constructor and compares it with the Schedule that was mutated at run time.
#include "../simcore/runner.hpp"
#include "srun/driver.hpp"
#include "srun/schedcmp.hpp"

#include "srun/packing.hpp"
#include "srun/monitor.hpp"
#include <opm/input/eclipse/Parser/Parser.hpp>
#include <opm/input/eclipse/Schedule/ScheduleState.hpp>
#include <opm/input/eclipse/Schedule/Action/Actions.hpp>


#include <sstream>
#include <algorithm>

using namespace sim;
using namespace srun;

namespace {

using Json = sim::Json;

std::map<std::string, const ActionDef*> action_index(const Model& m) {
    std::map<std::string, const ActionDef*> ix;
    for (auto& a : m.actions0) ix[a.name] = &a;
    for (auto& s : m.steps) for (auto& a : s.actions) ix[a.name] = &a;
    return ix;
}

// body keywords with each '?' record expanded to one record per matching well, in matching order
std::vector<Kw> expand(const ActionDef& a, const std::vector<std::string>& wells) {
    std::vector<Kw> out;
    for (const auto& k : a.body) {
        Kw e; e.name = k.name; e.terminated = k.terminated;
        for (const auto& rec : k.recs) {
            bool has_q = false; for (auto& t : rec) if (t == "'?'" || t == "?") has_q = true;
            if (!has_q) { e.recs.push_back(rec); continue; }
            for (const auto& w : wells) { auto r2 = rec; for (auto& t : r2) if (t == "'?'" || t == "?") t = "'" + w + "'"; e.recs.push_back(r2); }
        }
        if (!e.recs.empty()) out.push_back(e);
    }
    return out;
}

struct C04 : Scenario {
    std::string id() const override { return "C04"; }
    Json describe() override { Json j = Json::object(); j["scenario"] = "S-RUN"; j["real_vs_stub"] = describe_real_vs_stub();
        j["reference"] = "the stock Schedule constructor on the deck with every recorded application inlined as text at the end of block n"; return j; }

    Json generate(Rng& rng, const std::string& tier, std::uint64_t) override {
        Json p = Json::object();
        p["scenario"] = "S-RUN";
        GenOpts o; o.family_snippets = true; o.tuning_vfp = true; o.late_edits = true; o.max_steps = tier == "thorough" ? 9 : 7; o.max_actions = 3; o.max_udq = 1; o.restart_safe_conditions = false; o.reparent_groups = true; o.action_inline_safe = true; o.stop_safe = false; o.geo_kws = true; o.per_step_kws = true;
        p["model_seed"] = static_cast<long long>(rng.next() >> 8); p["gen"] = o.to_json(); p["physics_seed"] = static_cast<long long>(rng.next() >> 16);
        Json ms = Json::array();
        for (int s = 0; s < o.max_steps; ++s) { Json f = Json::array(); int n = static_cast<int>(rng.range(1, 3)); for (int k = 1; k < n; ++k) f.push(static_cast<double>(k) / n); f.push(1.0); ms.push(f); }
        p["ministeps"] = ms; p["drops"] = Json::object();
        return p;
    }

    std::vector<Json> shrink(const Json& plan) override {
        std::vector<Json> out;
        Model m = generate_model(static_cast<std::uint64_t>(plan.geti("model_seed")), GenOpts::from_json(plan.at("gen")));
        Json drops = plan.has("drops") ? plan.at("drops") : Json::object(); apply_drops(m, drops);
        for (int k = 1; k < m.nsteps(); ++k) { Json p = plan; p["drops"]["keep_steps"] = k; out.push_back(p); }
        auto add_action = [&](const std::string& n) { Json p = plan; Json l = drops.has("actions") ? drops.at("actions") : Json::array(); l.push(n); p["drops"]["actions"] = l; out.push_back(p); };
        for (auto& a : m.actions0) add_action(a.name);
        for (auto& s : m.steps) for (auto& a : s.actions) add_action(a.name);
        if (m.wells.size() > 1) for (auto& w : m.wells) { Json p = plan; Json l = drops.has("wells") ? drops.at("wells") : Json::array(); l.push(w.name); p["drops"]["wells"] = l; out.push_back(p); }
        for (int b = m.nsteps() - 1; b >= 1; --b) for (int k = static_cast<int>(m.steps[static_cast<size_t>(b)].kws.size()) - 1; k >= 0; --k) {
            Json p = plan; Json l = drops.has("kws") ? drops.at("kws") : Json::array(); Json e = Json::array(); e.push(b); e.push(k); l.push(e); p["drops"]["kws"] = l; out.push_back(p); }
        if (!drops.getb("no_udq") && !m.udq_names.empty()) { Json p = plan; p["drops"]["no_udq"] = true; out.push_back(p); }
        return out;
    }

    RunResult execute(const Json& plan) override {
        RunResult r;
        const std::string root = getenv("VERIF_RUNDIR") ? getenv("VERIF_RUNDIR") : "/dev/shm/verif.run";
        fs::begin_run(root);
        Model m = generate_model(static_cast<std::uint64_t>(plan.geti("model_seed")), GenOpts::from_json(plan.at("gen")));
        if (plan.has("drops")) apply_drops(m, plan.at("drops"));
        kw_histogram(m, r.counters);
        const auto ix = action_index(m);
        RunCfg cfg; cfg.physics_seed = static_cast<std::uint64_t>(plan.geti("physics_seed"));
        for (size_t k = 0; k < plan.at("ministeps").size(); ++k) { std::vector<double> f; for (size_t q = 0; q < plan.at("ministeps")[k].size(); ++q) f.push_back(plan.at("ministeps")[k][q].as_d()); cfg.ministeps.push_back(f); }
        const std::string deck = deck_text(m);
        fs::note("deck", deck);
        if (getenv("VERIF_DUMP_DECK")) fs::spit("/tmp/deckA.DATA", deck);
        Hash64 oh, sh;
        Monitor mon(r, "C04");
        std::unique_ptr<World> w;
        long compared = 0, n_shut_ins_total = 0, n_wpi_acc_total = 0;
        try {
            w = World::create(deck, cfg);
            w->write_initial();
            w->run(1, w->last_step(), &mon);
        } catch (const std::exception& e) { if (r.violations.empty()) r.fail("C04.run_threw." + msg_key(e.what()), std::string("the run threw: ") + e.what()); }
        if (w && r.violations.empty()) {
            mon.verify(*w, "the end of the run", static_cast<int>(mon.query_img.size()));
            // ---- the reference: inline every recorded application, in firing order
            DeckOpts dopt;
            std::set<int> touched;
            // The exception clause ("keywords whose meaning is defined per report step ... see step n as already closed") is part of the
            // reference, not a mask.  At the point where a pass over block n closed at run time (the block itself, then every earlier
            // application at n) the reference deck makes the deferred per-step effects explicit:
            // (a) the well-wide WPIMULT records of the closed pass (only the last one per well counts - that rule is kept) are taken out
            //     and written in the immediately-applied form (I J of the well's column) at the close point;
            // (b) a well that stood SHUT with all connections shut when the application began gets an explicit well-level WELOPEN SHUT
            //     (the automatic shut-in of the closed pass has happened).
            Model m2 = m;
            auto global_wpimult = [](const Kw& k, const std::vector<std::string>& rec) { return k.name == "WPIMULT" && k.raw.empty() && rec.size() == 2; };
            auto unq = [](std::string t) { if (t.size() >= 2 && t.front() == '\'' && t.back() == '\'') t = t.substr(1, t.size() - 2); return t; };
            // strips the well-wide WPIMULT records out of `kws`; returns (well, factor text) of the last one per well, in well order
            auto take_global = [&](std::vector<Kw>& kws) {
                std::map<std::string, std::string> last;
                for (auto& k : kws) { std::vector<std::vector<std::string>> keep; bool any = false; for (auto& rec : k.recs) if (global_wpimult(k, rec)) { last[unq(rec[0])] = rec[1]; any = true; } else keep.push_back(rec); if (any) k.recs = keep; }
                kws.erase(std::remove_if(kws.begin(), kws.end(), [](const Kw& k) { return k.name == "WPIMULT" && k.raw.empty() && k.recs.empty(); }), kws.end());
                return last;
            };
            auto immediate = [&](const std::map<std::string, std::string>& last) {
                Kw k; k.name = "WPIMULT";
                for (auto& kv : last) for (auto& wd : m.wells) if (wd.name == kv.first) k.recs.push_back({"'" + wd.name + "'", kv.second, std::to_string(wd.i), std::to_string(wd.j)});
                return k;
            };
            long n_shut_ins = 0, n_wpi_acc = 0;
            const std::string plain = getenv("VERIF_C04_PLAIN_INLINING") ? getenv("VERIF_C04_PLAIN_INLINING") : ""; const bool plain_shut = plain == "1" || plain == "shut", plain_wpi = plain == "1" || plain == "wpimult";   // development aid: reference without the exception clause (shows that the clause is reached)
            std::set<int> closed_blocks;
            for (const auto& f : w->firings) {
                auto it = ix.find(f.action); if (it == ix.end()) continue;
                if (!closed_blocks.count(f.step) && !plain_wpi) {
                    closed_blocks.insert(f.step);
                    std::vector<Kw>* blk = f.step == 0 ? &m2.block0 : f.step < m2.nsteps() ? &m2.steps[static_cast<size_t>(f.step)].kws : nullptr;
                    if (blk) { auto k = immediate(take_global(*blk)); if (!k.recs.empty()) { dopt.append_to_block[f.step].push_back(k); n_wpi_acc += static_cast<long>(k.recs.size()); } }
                }
                if (!f.shut_closed.empty() && !plain_shut) { Kw sk; sk.name = "WELOPEN"; for (auto& wn : f.shut_closed) sk.recs.push_back({"'" + wn + "'", "'SHUT'"}); dopt.append_to_block[f.step].push_back(sk); n_shut_ins += static_cast<long>(f.shut_closed.size()); }
                auto body = expand(*it->second, f.wells);
                std::map<std::string, std::string> last; if (!plain_wpi) last = take_global(body);
                for (auto& k : body) dopt.append_to_block[f.step].push_back(k);
                { auto k = immediate(last); if (!k.recs.empty()) { dopt.append_to_block[f.step].push_back(k); n_wpi_acc += static_cast<long>(k.recs.size()); } }
                touched.insert(f.step);
                sh.str(f.action); sh.u64(static_cast<std::uint64_t>(f.step)); sh.u64(f.wells.size());
            }
            n_shut_ins_total = n_shut_ins; n_wpi_acc_total = n_wpi_acc;
            const std::string deck_inl = deck_text(m2, dopt);
            if (getenv("VERIF_DUMP_DECK")) fs::spit("/tmp/deckInl.DATA", deck_inl);
            try {
                Opm::Parser parser;
                auto d2 = parser.parseString(deck_inl);
                Opm::EclipseState es2(d2);
                Opm::Schedule ref(d2, es2, std::make_shared<Opm::Python>());
                if (ref.size() != w->sched->size()) r.fail("C04.size", "inlined schedule has " + std::to_string(ref.size()) + " states, the mutated one " + std::to_string(w->sched->size()));
                for (size_t k = 0; k < ref.size() && r.violations.empty(); ++k) {
                    auto da = dump_state(*w->sched, k, *w->st, DumpOpts{false, true, true, false, true, true, false});
                    auto db = dump_state(ref, k, *w->st, DumpOpts{false, true, true, false, true, true, false});
                    std::string cls; std::string d = diff_dumps(da, db, false, cls);
                    compared += static_cast<long>(da.size()); oh.u64(hash_dump(da));
                    if (!d.empty()) { r.fail("C04.state." + cls, "schedule state " + std::to_string(k) + " (actions applied at run time vs inlined in the deck; " + std::to_string(w->firings.size()) + " applications): " + d); break; }
                    // full member-wise equality for every state that is not itself an application step (state n differs by the action event marker)
                    {
                        // member-wise equality (the members of ScheduleState::operator==), except: `udq` is compared through its definitions in the
                        // public-query image because UDQConfig::eval() mutates bookkeeping inside the object while a run evaluates it, and the event
                        // markers are masked at an application step ("state n differs only by the action event marker")
                        const bool app = touched.count(static_cast<int>(k)) > 0;
                        const std::string differs = state_member_diff((*w->sched)[k], ref[k], app, true, false);
                        if (!differs.empty()) { r.fail("C04.member." + differs, "schedule state " + std::to_string(k) + (app ? " (an application step)" : "") + ": member '" + differs + "' differs between the run-time mutated schedule and the inlined one"); break; }
                    }
                }
            } catch (const std::exception& e) { r.fail("C04.inlined_deck_threw." + msg_key(e.what()), std::string("constructing the schedule of the inlined deck threw: ") + e.what()); }
        }
        r.counters["comparisons"] = compared; r.counters["probe.applications"] = w ? static_cast<long>(w->firings.size()) : 0;
        r.counters["earlier_state_checks"] = mon.checks; r.counters["probe.closed_step_shut_in_made_explicit"] = n_shut_ins_total; r.counters["probe.wpimult_of_closed_pass_made_immediate"] = n_wpi_acc_total;
        { long q = 0, multi = 0; std::map<int, int> per; if (w) for (auto& f : w->firings) { auto it = ix.find(f.action); if (it != ix.end()) for (auto& k : it->second->body) for (auto& rec : k.recs) for (auto& t : rec) if (t == "'?'") ++q; if (++per[f.step] == 2) ++multi; }
          r.counters["probe.question_mark_records_applied"] = q; r.counters["probe.two_applications_in_one_step"] = multi; }
        r.sim_seconds = w ? w->sim_seconds : 0;
        r.nontrivial = w && !w->firings.empty();
        sh.str(m.units); sh.u64(m.wells.size()); sh.u64(static_cast<std::uint64_t>(m.nsteps()));
        r.shape = sh.h;
        Hash64 fin; fin.u64(fs::log_hash()); fin.u64(oh.h); r.hash = fin.h;
        Json s = Json::object(); s["units"] = m.units; s["report_steps"] = m.nsteps(); Json fl = Json::array(); if (w) for (auto& f : w->firings) { std::string t = f.action + "@" + std::to_string(f.step) + ":"; for (auto& x : f.wells) t += x + ","; fl.push(t); } s["applications"] = fl;
        r.sample = s;
        for (auto& kv : fs::counters()) r.counters[kv.first] += kv.second;
        w.reset();
        fs::end_run(true);
        return r;
    }
};

} // namespace

int main(int argc, char** argv) { C04 sc; return sim::worker_main(argc, argv, sc); }
