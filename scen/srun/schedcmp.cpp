#include "schedcmp.hpp"
#include "../../simcore/rng.hpp"

#include <opm/input/eclipse/Schedule/Action/ActionX.hpp>
#include <opm/input/eclipse/Schedule/Action/Actions.hpp>
#include <opm/input/eclipse/Schedule/Action/Condition.hpp>
#include <opm/input/eclipse/Schedule/Events.hpp>
#include <opm/input/eclipse/Schedule/Group/Group.hpp>
#include <opm/input/eclipse/Schedule/MSW/Segment.hpp>
#include <opm/input/eclipse/Schedule/MSW/WellSegments.hpp>
#include <opm/input/eclipse/Schedule/Network/ExtNetwork.hpp>
#include <opm/input/eclipse/Schedule/ScheduleState.hpp>
#include <opm/input/eclipse/Schedule/UDQ/UDQAssign.hpp>
#include <opm/input/eclipse/Schedule/UDQ/UDQConfig.hpp>
#include <opm/input/eclipse/Schedule/UDQ/UDQDefine.hpp>
#include <opm/input/eclipse/Schedule/Well/Connection.hpp>
#include <opm/input/eclipse/Schedule/Well/WList.hpp>
#include <opm/input/eclipse/Schedule/Well/WListManager.hpp>
#include <opm/input/eclipse/Schedule/Well/Well.hpp>
#include <opm/input/eclipse/Schedule/Well/WellConnections.hpp>
#include <opm/input/eclipse/Schedule/Well/WellEconProductionLimits.hpp>
#include <opm/input/eclipse/Schedule/Well/WellTestConfig.hpp>

#include <algorithm>
#include <cmath>

namespace srun {

using namespace Opm;

namespace {
struct D {
    std::vector<Item>& out;
    void s(const std::string& k, const std::string& v) { Item i; i.key = k; i.s = v; out.push_back(i); }
    void n(const std::string& k, double v, bool fp = false) { Item i; i.key = k; i.numeric = true; i.v = v; i.float_prec = fp; out.push_back(i); }
    void i(const std::string& k, long long v) { n(k, static_cast<double>(v), false); }
};
}

std::vector<Item> dump_state(const Schedule& sched, std::size_t step, const SummaryState& st, const DumpOpts& o) {
    std::vector<Item> out; D d{out};
    const auto& ss = sched[step];
    // ---- wells
    auto wnames = sched.wellNames(step);
    std::sort(wnames.begin(), wnames.end());
    for (const auto& wn : wnames) {
        const auto& w = sched.getWell(wn, step);
        const std::string p = "well." + wn + ".";
        d.s(p + "group", w.groupName());
        if (o.dynamic) {
            std::string status = WellStatus2String(w.getStatus());
            // documented writer rule (AggregateWellData dynamicContribStop): a stopped well without at least two open connections
            // cannot cross-flow and is stored as SHUT in a restart file
            if (o.stop_without_crossflow_is_shut && status == "STOP") {
                size_t nopen = 0; for (const auto& c : w.getConnections()) if (c.state() == Connection::State::OPEN) ++nopen;
                if (nopen < 2) status = "SHUT";
            }
            d.s(p + "status", status);
        }
        d.n(p + "efficiency_factor", w.getEfficiencyFactor(), true);
        d.i(p + "is_producer", w.isProducer());
        d.i(p + "prediction_mode", w.predictionMode());
        d.i(p + "headI", w.getHeadI()); d.i(p + "headJ", w.getHeadJ());
        d.n(p + "ref_depth", w.hasRefDepth() ? w.getRefDepth() : -1.0, true);
        d.i(p + "multi_segment", w.isMultiSegment());
        d.i(p + "group_control_available", w.isAvailableForGroupControl());
        d.i(p + "allow_crossflow", w.getAllowCrossFlow());
        d.i(p + "automatic_shutin", w.getAutomaticShutIn());
        if (w.isProducer()) {
            const auto c = w.productionControls(st);
            d.s(p + "prod.cmode", c.cmode == Opm::WellProducerCMode::CMODE_UNDEFINED ? std::string("UNDEFINED") : WellProducerCMode2String(c.cmode));
            for (auto m : {Well::ProducerCMode::ORAT, Well::ProducerCMode::WRAT, Well::ProducerCMode::GRAT, Well::ProducerCMode::LRAT, Well::ProducerCMode::RESV, Well::ProducerCMode::BHP, Well::ProducerCMode::THP, Well::ProducerCMode::GRUP})
                d.i(p + "prod.has_" + WellProducerCMode2String(m), c.hasControl(m));
            d.n(p + "prod.oil_rate", c.oil_rate, true); d.n(p + "prod.water_rate", c.water_rate, true); d.n(p + "prod.gas_rate", c.gas_rate, true);
            d.n(p + "prod.liquid_rate", c.liquid_rate, true); d.n(p + "prod.resv_rate", c.resv_rate, true);
            d.n(p + "prod.bhp_limit", c.bhp_limit, true); d.n(p + "prod.thp_limit", c.thp_limit, true);
        } else {
            const auto c = w.injectionControls(st);
            d.s(p + "inj.cmode", c.cmode == Opm::WellInjectorCMode::CMODE_UNDEFINED ? std::string("UNDEFINED") : WellInjectorCMode2String(c.cmode));
            d.s(p + "inj.type", InjectorType2String(c.injector_type));
            for (auto m : {Well::InjectorCMode::RATE, Well::InjectorCMode::RESV, Well::InjectorCMode::BHP, Well::InjectorCMode::THP, Well::InjectorCMode::GRUP})
                d.i(p + "inj.has_" + WellInjectorCMode2String(m), c.hasControl(m));
            d.n(p + "inj.surface_rate", c.surface_rate, true); d.n(p + "inj.reservoir_rate", c.reservoir_rate, true);
            d.n(p + "inj.bhp_limit", c.bhp_limit, true); d.n(p + "inj.thp_limit", c.thp_limit, true);
        }
        // connections, keyed by cell
        const auto& conns = w.getConnections();
        d.i(p + "nconn", static_cast<long long>(conns.size()));
        size_t ord = 0;
        for (const auto& c : conns) {
            const std::string q = p + "conn." + std::to_string(c.global_index()) + ".";
            d.i(q + "order", static_cast<long long>(ord++));
            d.s(q + "state", Connection::State2String(c.state()));
            d.s(q + "dir", Connection::Direction2String(c.dir()));
            d.i(q + "complnum", c.complnum()); d.i(q + "segment", c.segment());
            d.n(q + "CF", c.CF(), true); d.n(q + "Kh", c.Kh(), true); d.n(q + "rw", c.rw(), true);
            d.n(q + "depth", c.depth(), true); d.n(q + "skin", c.skinFactor(), true);
            d.i(q + "sat_table", c.satTableId());
            if (o.wpimult) d.n(q + "wpimult", c.wpimult(), true);
        }
        if (w.isMultiSegment()) {
            const auto& segs = w.getSegments();
            d.i(p + "nseg", static_cast<long long>(segs.size()));
            for (size_t k = 0; k < segs.size(); ++k) {
                const auto& sg = segs[k];
                const std::string q = p + "seg." + std::to_string(sg.segmentNumber()) + ".";
                d.i(q + "branch", sg.branchNumber()); d.i(q + "outlet", sg.outletSegment());
                d.n(q + "total_length", sg.totalLength(), true); d.n(q + "depth", sg.depth(), true);
                d.n(q + "diameter", sg.internalDiameter(), true); d.n(q + "roughness", sg.roughness(), true);
                d.n(q + "cross_area", sg.crossArea(), true); d.n(q + "volume", sg.volume(), true);
                d.i(q + "type", static_cast<long long>(sg.segmentType()));
                if (sg.isValve()) { d.n(q + "valve.cv", sg.valve().conFlowCoefficient(), true); d.n(q + "valve.area", sg.valve().conCrossAreaValue(), true); d.i(q + "valve.status", sg.valve().ecl_status()); }
            }
        }
        if (w.isProducer()) {
        const auto& econ = w.getEconLimits();
        d.n(p + "econ.min_oil", econ.minOilRate(), true); d.n(p + "econ.min_gas", econ.minGasRate(), true);
        d.n(p + "econ.max_wct", econ.maxWaterCut(), true); d.n(p + "econ.max_gor", econ.maxGasOilRatio(), true);
        d.i(p + "econ.end_run", econ.endRun());
        d.n(p + "econ.max_wgr", econ.maxWaterGasRatio(), true); d.n(p + "econ.max_wct_2", econ.maxSecondaryMaxWaterCut(), true); d.n(p + "econ.min_liq", econ.minLiquidRate(), true);
        d.i(p + "econ.workover", static_cast<int>(econ.workover())); d.i(p + "econ.workover_2", static_cast<int>(econ.workoverSecondary())); d.i(p + "econ.quantity", static_cast<int>(econ.quantityLimit()));
        }
    }
    // ---- groups
    auto gnames = sched.groupNames(step);
    std::sort(gnames.begin(), gnames.end());
    for (const auto& gn : gnames) {
        const auto& g = sched.getGroup(gn, step);
        const std::string p = "group." + gn + ".";
        d.s(p + "parent", gn == "FIELD" ? "" : g.parent());
        std::vector<std::string> ch = g.groups(); std::sort(ch.begin(), ch.end()); std::string cs; for (auto& x : ch) cs += x + ","; d.s(p + "child_groups", cs);
        std::vector<std::string> cw = g.wells(); std::sort(cw.begin(), cw.end()); std::string ws; for (auto& x : cw) ws += x + ","; d.s(p + "wells", ws);
        d.n(p + "efficiency_factor", g.getGroupEfficiencyFactor(), true);
        d.i(p + "is_production_group", g.isProductionGroup());
        d.i(p + "is_injection_group", g.isInjectionGroup());
        if (g.isProductionGroup()) {
            const auto c = g.productionControls(st);
            d.s(p + "prod.cmode", Group::ProductionCMode2String(c.cmode));
            d.n(p + "prod.oil_target", c.oil_target, true); d.n(p + "prod.water_target", c.water_target, true);
            d.n(p + "prod.gas_target", c.gas_target, true); d.n(p + "prod.liquid_target", c.liquid_target, true);
            d.i(p + "prod.controls", c.production_controls);
        }
        for (const auto ph : {Opm::Phase::WATER, Opm::Phase::GAS}) if (g.hasInjectionControl(ph)) {
            const auto c = g.injectionControls(ph, st);
            const std::string q2 = p + (ph == Opm::Phase::WATER ? "winj." : "ginj.");
            d.s(q2 + "cmode", Group::InjectionCMode2String(c.cmode));
            d.n(q2 + "surface_max_rate", c.surface_max_rate, true); d.n(q2 + "resv_max_rate", c.resv_max_rate, true);
            d.n(q2 + "reinj_fraction", c.target_reinj_fraction, true); d.n(q2 + "void_fraction", c.target_void_fraction, true);
            d.i(q2 + "controls", c.injection_controls);
        }
    }
    // ---- well lists
    {
        const auto& wlm = ss.wlist_manager.get();
        for (const auto& wn : wnames) { std::vector<std::string> l; if (wlm.hasWList(wn)) for (const auto& ln : wlm.getWListNames(wn)) if (wlm.hasList(ln) && wlm.getList(ln).has(wn)) l.push_back(ln);   /* getWListNames() is the well's positional SLOT list of the restart layout: it keeps the name of a list the well has left */ std::sort(l.begin(), l.end()); l.erase(std::unique(l.begin(), l.end()), l.end()); std::string s; for (auto& x : l) s += x + ","; d.s("wlist_of." + wn, s); }
    }
    // ---- UDQ definitions
    if (o.udq) {
        const auto& udq = sched.getUDQConfig(step);
        auto defs = udq.definitions();
        std::sort(defs.begin(), defs.end(), [](const UDQDefine& a, const UDQDefine& b) { return a.keyword() < b.keyword(); });
        for (const auto& df : defs) d.s("udq.define." + df.keyword(), df.input_string());
        auto as = udq.assignments();
        std::sort(as.begin(), as.end(), [](const UDQAssign& a, const UDQAssign& b) { return a.keyword() < b.keyword(); });
        for (const auto& a : as) d.s("udq.assign." + a.keyword(), "assigned");
    }
    // ---- ACTIONX definitions
    if (o.actions) {
        const auto& acts = ss.actions.get();
        std::vector<std::string> names;
        for (const auto& a : acts) names.push_back(a.name());
        std::sort(names.begin(), names.end());
        for (const auto& an : names) {
            const auto& a = acts[an];
            const std::string p = "action." + an + ".";
            d.i(p + "max_run", static_cast<long long>(a.max_run()));
            d.n(p + "min_wait", a.min_wait(), true);
            if (o.action_start_time) d.i(p + "start_time", static_cast<long long>(a.start_time()));
            size_t ci = 0;
            for (const auto& c : a.conditions()) {
                const std::string q = p + "cond." + std::to_string(ci++) + ".";
                d.s(q + "lhs", c.lhs.quantity); std::string la; for (auto& x : c.lhs.args) la += x + ","; d.s(q + "lhs_args", la);
                {
                    // MNTH compares against a month given by number or by name; both spell the same condition
                    std::string rhs = c.rhs.quantity;
                    if (c.lhs.quantity == "MNTH" && !rhs.empty() && std::isdigit(static_cast<unsigned char>(rhs[0]))) {
                        static const char* mn[] = {"JAN", "FEB", "MAR", "APR", "MAY", "JUN", "JUL", "AUG", "SEP", "OCT", "NOV", "DEC"};
                        const int mi = static_cast<int>(std::lround(std::atof(rhs.c_str())));
                        if (mi >= 1 && mi <= 12) rhs = mn[mi - 1];
                    }
                    d.s(q + "rhs", rhs);
                } std::string ra; for (auto& x : c.rhs.args) ra += x + ","; d.s(q + "rhs_args", ra);
                d.i(q + "logic", c.logic_as_int()); d.i(q + "cmp", c.comparator_as_int()); d.i(q + "paren", c.paren_as_int());
            }
            size_t ki = 0;
            for (const auto& k : a.keyword_strings()) d.s(p + "kw." + std::to_string(ki++), k);
        }
    }
    // ---- network
    d.i("network.active", ss.network.get().active());
    if (o.events) {
        d.i("events", static_cast<long long>(ss.events().hasEvent(~std::uint64_t{0}) ? 1 : 0));
    }
    if (o.end_time) d.n("end_time", static_cast<double>(std::chrono::system_clock::to_time_t(ss.end_time())));
    return out;
}

static std::string strip_names(const std::string& key) {
    // "well.P1.conn.12.CF" -> "well.conn.CF"; "group.G1.parent" -> "group.parent"
    std::vector<std::string> parts; size_t p = 0;
    while (p <= key.size()) { size_t q2 = key.find('.', p); if (q2 == std::string::npos) q2 = key.size(); parts.push_back(key.substr(p, q2 - p)); p = q2 + 1; }
    std::string out;
    for (size_t k = 0; k < parts.size(); ++k) {
        bool name_slot = (k == 1 && (parts[0] == "well" || parts[0] == "group" || parts[0] == "action" || parts[0] == "wlist_of")) ||
                         (k >= 1 && (parts[k - 1] == "conn" || parts[k - 1] == "seg" || parts[k - 1] == "cond" || parts[k - 1] == "kw" || parts[k - 1] == "define" || parts[k - 1] == "assign"));
        if (name_slot) continue;
        if (!out.empty()) out += ".";
        out += parts[k];
    }
    return out;
}

std::string diff_dumps(const std::vector<Item>& a, const std::vector<Item>& b, bool allow_float, std::string& cls) {
    size_t n = std::max(a.size(), b.size());
    for (size_t k = 0; k < n; ++k) {
        if (k >= a.size()) { cls = strip_names(b[k].key); return "only second has " + b[k].key; }
        if (k >= b.size()) { cls = strip_names(a[k].key); return "only first has " + a[k].key; }
        const Item& x = a[k]; const Item& y = b[k];
        if (x.key != y.key) { cls = strip_names(x.key); return "key order differs: " + x.key + " vs " + y.key; }
        if (x.numeric != y.numeric) { cls = strip_names(x.key); return "kind differs at " + x.key; }
        if (!x.numeric) { if (x.s != y.s) { cls = strip_names(x.key); return x.key + ": '" + x.s + "' vs '" + y.s + "'"; } continue; }
        bool same;
        if (std::isnan(x.v) || std::isnan(y.v)) same = std::isnan(x.v) && std::isnan(y.v);
        else if (allow_float && x.float_prec) {
            // single-precision storage in deck units: 2 float ulp relative, plus absolute slack for values that are offsets from zero
            same = std::fabs(x.v - y.v) <= 2.5e-7 * std::max(std::fabs(x.v), std::fabs(y.v)) || (std::isinf(x.v) && x.v == y.v) ||
                   (std::fabs(x.v) > 1e19 && std::fabs(y.v) > 1e19 && (x.v > 0) == (y.v > 0));
        } else same = x.v == y.v;
        if (!same) { cls = strip_names(x.key); char buf[200]; std::snprintf(buf, sizeof buf, "%s: %.17g vs %.17g", x.key.c_str(), x.v, y.v); return buf; }
    }
    return "";
}

std::uint64_t hash_dump(const std::vector<Item>& a) {
    sim::Hash64 h;
    for (auto& i : a) { h.str(i.key); if (i.numeric) h.dbl(i.v); else h.str(i.s); }
    return h.h;
}

} // namespace srun
