// Run-time causality monitor shared by C03 and C04: deep images of the schedule snapshots (public-query image + an independent
// deep copy compared member by member; NOT the packed bytes, which carry shared_ptr identities = heap addresses and change when an
// object is replaced by an equal one), re-verified after every
// later event that can touch the Schedule (each applyAction, run end).
#pragma once
#include "../../simcore/runner.hpp"
#include "driver.hpp"
#include "schedcmp.hpp"
#include "packing.hpp"

namespace srun {
using sim::RunResult;

// C03 run-time face: deep images of the snapshots 0..k taken when simulated time passes the end of report step k,
// recomputed after every later event that can touch the Schedule
struct Monitor : Observer {
    RunResult& r; std::string prefix; bool failed = false; long checks = 0;
    std::vector<std::uint64_t> query_img;      // per state: hash of the public-query image
    std::vector<std::shared_ptr<Opm::ScheduleState>> deep_img;   // per state: an independent deep copy (serialised and unpacked into a fresh object)
    Monitor(RunResult& rr, const std::string& pfx) : r(rr), prefix(pfx) {}
    void snapshot(World& w, int upto) {
        for (int k = static_cast<int>(query_img.size()); k <= upto; ++k) {
            query_img.push_back(hash_dump(dump_state(*w.sched, static_cast<size_t>(k), *w.st, DumpOpts{true, true, true, false, true, true, false})));
            deep_img.push_back(deep_copy_state(*w.sched, static_cast<size_t>(k)));
        }
    }
    void verify(World& w, const std::string& after, int below) {
        for (int k = 0; k < below && k < static_cast<int>(query_img.size()) && !failed; ++k) {
            ++checks;
            if (hash_dump(dump_state(*w.sched, static_cast<size_t>(k), *w.st, DumpOpts{true, true, true, false, true, true, false})) != query_img[static_cast<size_t>(k)]) { failed = true; r.fail(prefix + ".earlier_state_changed.queries", "schedule state " + std::to_string(k) + " answers public queries differently after " + after); }
            else { const std::string md = state_member_diff(*deep_img[static_cast<size_t>(k)], (*w.sched)[static_cast<size_t>(k)], false, false, false); if (!md.empty()) { failed = true; r.fail(prefix + ".earlier_state_changed.member." + md, "schedule state " + std::to_string(k) + ": member '" + md + "' differs from the deep copy taken when simulated time passed the step, after " + after); } }
        }
    }
    void before_actions(World& w, int step) override { snapshot(w, step - 1); }
    void after_apply(World& w, int step, const Firing& f) override { verify(w, "applying " + f.action + " at report step " + std::to_string(step), step); }
};


} // namespace srun
