// Run-time causality monitor shared by C03 and C04: deep images of the schedule snapshots, re-verified after every
// later event that can touch the Schedule (each applyAction, run end).
#pragma once
#include "../../simcore/runner.hpp"
#include "driver.hpp"
#include "schedcmp.hpp"
#include "packing.hpp"

namespace srun {
using sim::RunResult;

// C03 run-time face: deep images of the snapshots 0..k taken when simulated time passes the end of report step k,
// recomputed after every later event that can touch the Schedule
struct Monitor : Observer {
    RunResult& r; std::string prefix; bool failed = false; long checks = 0;
    std::vector<std::uint64_t> query_img;      // per state: hash of the public-query image
    std::vector<std::uint64_t> pack_img;       // per state: hash of the serialised bytes (deep: shared_ptr members included)
    Monitor(RunResult& rr, const std::string& pfx) : r(rr), prefix(pfx) {}
    static std::uint64_t pack_hash(const Opm::Schedule& s, size_t k) { auto b = pack_state(s, k); return sim::digest(b.data(), b.size()); }
    void snapshot(World& w, int upto) {
        for (int k = static_cast<int>(query_img.size()); k <= upto; ++k) {
            query_img.push_back(hash_dump(dump_state(*w.sched, static_cast<size_t>(k), *w.st, DumpOpts{true, true, true, false, true, true, false})));
            pack_img.push_back(pack_hash(*w.sched, static_cast<size_t>(k)));
        }
    }
    void verify(World& w, const std::string& after, int below) {
        for (int k = 0; k < below && k < static_cast<int>(query_img.size()) && !failed; ++k) {
            ++checks;
            if (hash_dump(dump_state(*w.sched, static_cast<size_t>(k), *w.st, DumpOpts{true, true, true, false, true, true, false})) != query_img[static_cast<size_t>(k)]) { failed = true; r.fail(prefix + ".earlier_state_changed.queries", "schedule state " + std::to_string(k) + " answers public queries differently after " + after); }
            else if (pack_hash(*w.sched, static_cast<size_t>(k)) != pack_img[static_cast<size_t>(k)]) { failed = true; r.fail(prefix + ".earlier_state_changed.bytes", "schedule state " + std::to_string(k) + " serialises to different bytes after " + after); }
        }
    }
    void before_actions(World& w, int step) override { snapshot(w, step - 1); }
    void after_apply(World& w, int step, const Firing& f) override { verify(w, "applying " + f.action + " at report step " + std::to_string(step), step); }
};


} // namespace srun
