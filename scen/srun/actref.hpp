// Reference model for ACTIONX (C18): condition evaluator written from the statement
// (AND binds tighter than OR, parentheses, date quantities with the documented month rounding rule,
// well patterns and well lists; matching-well set = wells for which the well-level comparisons hold,
// intersection under AND, union under OR, scalar or false sub-conditions contribute no set) and the
// count / wait / start-time state machine.
#pragma once
#include "model.hpp"
#include <opm/input/eclipse/Schedule/SummaryState.hpp>
#include <opm/input/eclipse/Schedule/Well/WListManager.hpp>

#include <cmath>
#include <ctime>
#include <map>
#include <optional>
#include <set>
#include <string>
#include <vector>

namespace actref {

struct Res {
    bool ok = false;
    std::optional<std::set<std::string>> wells;     // nullopt = "contributes no set"
};

inline bool glob(const std::string& pat, const std::string& s, size_t pi = 0, size_t si = 0) {
    while (pi < pat.size()) {
        if (pat[pi] == '*') { for (size_t k = si; k <= s.size(); ++k) if (glob(pat, s, pi + 1, k)) return true; return false; }
        if (si >= s.size()) return false;
        if (pat[pi] != '?' && pat[pi] != s[si]) return false;
        ++pi; ++si;
    }
    return si == s.size();
}

inline bool holds(double l, const std::string& op, double r) {
    if (op == ">") return l > r;
    if (op == "<") return l < r;
    if (op == ">=") return l >= r;
    if (op == "<=") return l <= r;
    if (op == "=") return l == r;
    return l != r;
}

inline int month_index(const std::string& s) {
    static const char* n[] = {"JAN", "FEB", "MAR", "APR", "MAY", "JUN", "JUL", "AUG", "SEP", "OCT", "NOV", "DEC"};
    for (int k = 0; k < 12; ++k) if (s == n[k]) return k + 1;
    if (s == "JLY") return 7;
    return 0;
}

struct Evaluator {
    const Opm::SummaryState& st;
    const Opm::WListManager& wlm;
    const std::vector<srun::Cmp>& cs;
    size_t pos = 0;           // token cursor over the flattened token list
    struct Tok { int kind; size_t idx; };   // 0 '(' 1 ')' 2 CMP 3 AND 4 OR
    std::vector<Tok> toks;

    Evaluator(const Opm::SummaryState& s, const Opm::WListManager& w, const std::vector<srun::Cmp>& c) : st(s), wlm(w), cs(c) {
        for (size_t k = 0; k < cs.size(); ++k) {
            for (int p = 0; p < cs[k].open_paren; ++p) toks.push_back({0, k});
            toks.push_back({2, k});
            for (int p = 0; p < cs[k].close_paren; ++p) toks.push_back({1, k});
            if (cs[k].logic == "AND") toks.push_back({3, k}); else if (cs[k].logic == "OR") toks.push_back({4, k});
        }
    }

    double rhs_value(const srun::Cmp& c) const {
        if (c.lhs == "MNTH") { int m = month_index(c.rhs); if (m) return m; return std::round(std::atof(c.rhs.c_str())); }
        return std::atof(c.rhs.c_str());
    }

    Res comparison(const srun::Cmp& c) const {
        Res r;
        const double rv = rhs_value(c);
        const char k0 = c.lhs[0];
        if (c.lhs_args.empty()) {            // field quantity, date quantity, field UDQ: scalar
            r.ok = holds(st.get(c.lhs), c.op, rv);
            return r;
        }
        const std::string& arg = c.lhs_args[0];
        if (k0 == 'G') { r.ok = holds(st.get_group_var(arg, c.lhs), c.op, rv); return r; }
        // well quantity
        std::vector<std::string> wells;
        if (arg.find('*') == std::string::npos) wells.push_back(arg);
        else if (arg[0] == '*' && arg.size() > 1 && arg.find('*', 1) == std::string::npos && wlm.hasList(arg)) wells = wlm.wells(arg);
        else {
            std::string pat = arg; if (pat[0] == '\\') pat = pat.substr(1);
            for (const auto& w : st.wells(c.lhs)) if (glob(pat, w)) wells.push_back(w);
        }
        std::set<std::string> hit;
        for (const auto& w : wells) if (holds(st.get_well_var(w, c.lhs), c.op, rv)) hit.insert(w);
        r.ok = !hit.empty();
        if (r.ok) r.wells = hit;           // a false comparison contributes no set
        return r;
    }

    Res factor() {
        if (toks[pos].kind == 0) { ++pos; Res r = expr(); ++pos; /* ')' */ return r; }
        Res r = comparison(cs[toks[pos].idx]); ++pos; return r;
    }
    Res term() {          // AND chain
        Res acc = factor();
        while (pos < toks.size() && toks[pos].kind == 3) {
            ++pos; Res r = factor();
            acc.ok = acc.ok && r.ok;
            if (!acc.ok) acc.wells.reset();
            else if (r.wells) { if (!acc.wells) acc.wells = r.wells; else { std::set<std::string> i; for (auto& w : *acc.wells) if (r.wells->count(w)) i.insert(w); acc.wells = i; } }
        }
        if (!acc.ok) acc.wells.reset();
        return acc;
    }
    Res expr() {          // OR chain
        Res acc = term();
        while (pos < toks.size() && toks[pos].kind == 4) {
            ++pos; Res r = term();
            acc.ok = acc.ok || r.ok;
            if (r.ok && r.wells) { if (!acc.wells) acc.wells = r.wells; else acc.wells->insert(r.wells->begin(), r.wells->end()); }
        }
        if (!acc.ok) acc.wells.reset();
        return acc;
    }
    Res eval() { pos = 0; return expr(); }
};

// count / wait / start model
struct Limits {
    struct S { long count = 0; std::time_t last = 0; };
    std::map<std::string, S> s;
    // max_run / min_wait are the values the action object reports (inputs of the state machine, in SI seconds)
    bool ready(const std::string& name, long max_run, double min_wait, std::time_t start_time, std::time_t now) const {
        auto it = s.find(name);
        const long cnt = it == s.end() ? 0 : it->second.count;
        if (cnt >= max_run) return false;
        if (now < start_time) return false;
        if (cnt == 0 || min_wait <= 0) return true;
        return std::difftime(now, it->second.last) >= min_wait;
    }
    void ran(const std::string& name, std::time_t now) { auto& x = s[name]; ++x.count; x.last = now; }
};

} // namespace actref
