#include "packing.hpp"
#include "serialize_includes.hpp"

#include <opm/common/utility/MemPacker.hpp>
#include <opm/common/utility/Serializer.hpp>

namespace srun {

namespace {
struct Ser : Opm::Serializer<Opm::Serialization::MemPacker> {
    using Opm::Serializer<Opm::Serialization::MemPacker>::Serializer;
    const std::vector<char>& buf() const { return this->m_buffer; }
};

template <class T, class Make, class Eq>
Trip trip(const T& src, std::unique_ptr<T>& dst, Make make, Eq eq, T* inplace = nullptr) {
    Trip t;
    Opm::Serialization::MemPacker packer;
    Ser ser(packer);
    ser.pack(src);
    t.packed = ser.buf().size();
    dst = make();
    ser.unpack(*dst);
    t.consumed = ser.position();
    t.equal = eq(*dst, src);
    // Some classes serialise lazily filled caches (e.g. SummaryState::well_names, filled by wells(), which operator== calls): the
    // packed length of one and the same object changes when it is *queried*.  The replica is therefore compared with the
    // original packed again at the same moment, after both went through the same queries.
    { Ser ser1(packer); ser1.pack(src); t.packed_now = ser1.buf().size(); }
    // second generation: pack the replica, unpack it again
    Ser ser2(packer);
    ser2.pack(*dst);
    t.repacked = ser2.buf().size();
    auto third = make();
    ser2.unpack(*third);
    t.repack_equal_after_unpack = eq(*third, *dst) && ser2.position() == ser2.buf().size();
    // the way a checkpoint is loaded in production: the packed bytes are unpacked *into the live object*
    if (inplace) ser.unpack(*inplace);
    return t;
}
struct StdEq { template <class T> bool operator()(const T& a, const T& b) const { return a == b; } };
// EclipseState has no operator==: compare every transferred member that has one (grid and field properties are distributed separately)
struct EsEq { bool operator()(const Opm::EclipseState& a, const Opm::EclipseState& b) const {
    return a.runspec() == b.runspec() && a.getTableManager() == b.getTableManager() && a.aquifer() == b.aquifer() && a.getSimulationConfig() == b.getSimulationConfig()
        && a.getInitConfig() == b.getInitConfig() && a.getIOConfig() == b.getIOConfig() && a.getUnits() == b.getUnits() && a.getDeckUnitSystem() == b.getDeckUnitSystem()
        && a.tracer() == b.tracer() && a.getFaults() == b.getFaults() && a.getInputNNC() == b.getInputNNC() && a.getTitle() == b.getTitle() && a.gridDims() == b.gridDims()
        && a.getEclipseConfig() == b.getEclipseConfig();
} };
} // namespace


// Well::operator== also compares the UnitSystem object each well carries, including its lazily filled cache of parsed
// dimension strings: two wells built from byte-identical input compare unequal when *other* (e.g. later) keywords made the
// parser cache more dimensions.  That cache is not schedule state, so a well pair that fails operator== is accepted iff every
// constituent operator== compares (apart from the unit system object) is equal.
bool well_equal_modulo_unit_cache(const Opm::Well& wa, const Opm::Well& wb) {
    if (wa == wb) return true;
    if (wa.isMultiSegment() != wb.isMultiSegment()) return false;
    if (wa.isMultiSegment() && !(wa.getSegments() == wb.getSegments())) return false;
    return wa.name() == wb.name() && wa.groupName() == wb.groupName() && wa.firstTimeStep() == wb.firstTimeStep() && wa.seqIndex() == wb.seqIndex()
        && wa.getHeadI() == wb.getHeadI() && wa.getHeadJ() == wb.getHeadJ() && wa.hasRefDepth() == wb.hasRefDepth() && (!wa.hasRefDepth() || wa.getRefDepth() == wb.getRefDepth())
        && wa.getDrainageRadius() == wb.getDrainageRadius() && wa.getAllowCrossFlow() == wb.getAllowCrossFlow() && wa.getAutomaticShutIn() == wb.getAutomaticShutIn()
        && wa.getPreferredPhase() == wb.getPreferredPhase() && wa.getEfficiencyFactor() == wb.getEfficiencyFactor() && wa.getConnections() == wb.getConnections()
        && wa.getWPaveRefDepth() == wb.getWPaveRefDepth() && wa.gas_inflow_equation() == wb.gas_inflow_equation() && wa.pvt_table_number() == wb.pvt_table_number()
        && wa.isProducer() == wb.isProducer() && wa.getGuideRate() == wb.getGuideRate() && wa.getRawGuideRatePhase() == wb.getRawGuideRatePhase() && wa.getGuideRateScalingFactor() == wb.getGuideRateScalingFactor()
        && wa.isAvailableForGroupControl() == wb.isAvailableForGroupControl() && wa.hasProduced() == wb.hasProduced() && wa.hasInjected() == wb.hasInjected() && wa.predictionMode() == wb.predictionMode()
        && wa.getSolventFraction() == wb.getSolventFraction() && wa.getEconLimits() == wb.getEconLimits() && wa.getFoamProperties() == wb.getFoamProperties()
        && wa.getPolymerProperties() == wb.getPolymerProperties() && wa.getMICPProperties() == wb.getMICPProperties() && wa.getBrineProperties() == wb.getBrineProperties()
        && wa.getTracerProperties() == wb.getTracerProperties() && wa.getProductionProperties() == wb.getProductionProperties() && wa.getInjectionProperties() == wb.getInjectionProperties()
        && wa.getWVFPDP() == wb.getWVFPDP() && wa.getWVFPEXP() == wb.getWVFPEXP() && wa.getWDFAC() == wb.getWDFAC() && wa.getStatus() == wb.getStatus() && wa.pavg() == wb.pavg()
        && wa.hasInjTemperature() == wb.hasInjTemperature() && wa.getInjMultMode() == wb.getInjMultMode();
}
bool wells_equal(const Opm::ScheduleState& a, const Opm::ScheduleState& b) {
    if (a.wells == b.wells) return true;
    const auto wa = a.wells(); const auto wb = b.wells();
    if (wa.size() != wb.size()) return false;
    for (const auto& w : wa) { if (!b.wells.has(w.get().name())) return false; if (!well_equal_modulo_unit_cache(w.get(), b.wells.get(w.get().name()))) return false; }
    return true;
}


// same for Group::operator==, which compares the UnitSystem object (with its dimension cache) as well
bool group_equal_modulo_unit_cache(const Opm::Group& ga, const Opm::Group& gb) {
    if (ga == gb) return true;
    return ga.name() == gb.name() && ga.insert_index() == gb.insert_index() && ga.getGroupType() == gb.getGroupType() && ga.getGroupEfficiencyFactor() == gb.getGroupEfficiencyFactor()
        && ga.getTransferGroupEfficiencyFactor() == gb.getTransferGroupEfficiencyFactor() && ga.parent() == gb.parent() && ga.wells() == gb.wells() && ga.groups() == gb.groups()
        && ga.topup_phase() == gb.topup_phase() && ga.injectionProperties() == gb.injectionProperties() && ga.gpmaint() == gb.gpmaint() && ga.productionProperties() == gb.productionProperties();
}
bool groups_equal(const Opm::ScheduleState& a, const Opm::ScheduleState& b) {
    if (a.groups == b.groups) return true;
    const auto ga = a.groups(); const auto gb = b.groups();
    if (ga.size() != gb.size()) return false;
    for (const auto& g : ga) { if (!b.groups.has(g.get().name())) return false; if (!group_equal_modulo_unit_cache(g.get(), b.groups.get(g.get().name()))) return false; }
    return true;
}

// VFPProdTable::operator== also compares the KeywordLocation (line number in the input): two inputs that differ only in where
// the table stands compare unequal.  The statement is about what the schedule means: compare everything but the location.
static bool vfpprod_equal_modulo_location(const Opm::ScheduleState& a, const Opm::ScheduleState& b) {
    const auto ka = a.vfpprod.keys(), kb = b.vfpprod.keys();
    if (ka != kb) return false;
    for (const auto& k : ka) {
        const auto& x = a.vfpprod(k); const auto& y = b.vfpprod(k);
        if (!(x.getTableNum() == y.getTableNum() && x.getDatumDepth() == y.getDatumDepth() && x.getFloType() == y.getFloType() && x.getWFRType() == y.getWFRType() && x.getGFRType() == y.getGFRType()
              && x.getALQType() == y.getALQType() && x.getFloAxis() == y.getFloAxis() && x.getTHPAxis() == y.getTHPAxis() && x.getWFRAxis() == y.getWFRAxis() && x.getGFRAxis() == y.getGFRAxis()
              && x.getALQAxis() == y.getALQAxis() && x.getTable() == y.getTable())) return false;
    }
    return true;
}

static bool vfpinj_equal_modulo_location(const Opm::ScheduleState& a, const Opm::ScheduleState& b) {
    const auto ka = a.vfpinj.keys(), kb = b.vfpinj.keys();
    if (ka != kb) return false;
    for (const auto& k : ka) {
        const auto& x = a.vfpinj(k); const auto& y = b.vfpinj(k);
        if (!(x.getTableNum() == y.getTableNum() && x.getDatumDepth() == y.getDatumDepth() && x.getFloType() == y.getFloType() && x.getFloAxis() == y.getFloAxis() && x.getTHPAxis() == y.getTHPAxis() && x.getTable() == y.getTable())) return false;
    }
    return true;
}

// GCONSUMPGroup / GCONSALEGroup carry a UnitSystem object (with its lazily filled dimension cache) that their operator== compares:
// equal modulo that object, group by group (the groups are the ones of the schedule state)
static bool gconsump_equal_modulo_unit_cache(const Opm::ScheduleState& a, const Opm::ScheduleState& b) {
    const auto& x = a.gconsump.get(); const auto& y = b.gconsump.get();
    if (x == y) return true;
    if (x.size() != y.size()) return false;
    for (const auto& g : a.groups()) { const auto& n = g.get().name(); if (x.has(n) != y.has(n)) return false; if (!x.has(n)) continue;
        const auto& p = x.get(n); const auto& q = y.get(n);
        if (!(p.consumption_rate == q.consumption_rate && p.import_rate == q.import_rate && p.network_node == q.network_node && p.udq_undefined == q.udq_undefined)) return false; }
    return true;
}
static bool gconsale_equal_modulo_unit_cache(const Opm::ScheduleState& a, const Opm::ScheduleState& b) {
    const auto& x = a.gconsale.get(); const auto& y = b.gconsale.get();
    if (x == y) return true;
    if (x.size() != y.size()) return false;
    for (const auto& g : a.groups()) { const auto& n = g.get().name(); if (x.has(n) != y.has(n)) return false; if (!x.has(n)) continue;
        const auto& p = x.get(n); const auto& q = y.get(n);
        if (!(p.sales_target == q.sales_target && p.max_sales_rate == q.max_sales_rate && p.min_sales_rate == q.min_sales_rate && p.max_proc == q.max_proc && p.udq_undefined == q.udq_undefined)) return false; }
    return true;
}

std::string state_member_diff(const Opm::ScheduleState& a, const Opm::ScheduleState& b, bool mask_events, bool mask_udq, bool mask_end_time) {
    std::string differs;
    auto chk = [&](bool same, const char* what) { if (!same && differs.empty()) differs = what; };
    if (!mask_events) { chk(a.events() == b.events(), "events"); chk(a.wellgroup_events() == b.wellgroup_events(), "wellgroup_events"); }
    if (!mask_udq) chk(a.udq.get() == b.udq.get(), "udq");
    if (!mask_end_time) { bool ea = true, eb = true; try { (void)a.end_time(); } catch (...) { ea = false; } try { (void)b.end_time(); } catch (...) { eb = false; } chk(ea == eb && (!ea || a.end_time() == b.end_time()), "end_time"); }
    chk(a.actions.get() == b.actions.get(), "actions"); chk(a.udq_active.get() == b.udq_active.get(), "udq_active");
    chk(wells_equal(a, b), "wells");
    chk(groups_equal(a, b), "groups"); chk(a.wtest_config.get() == b.wtest_config.get(), "wtest_config");
    chk(a.wlist_manager.get() == b.wlist_manager.get(), "wlist_manager"); chk(a.rpt_config.get() == b.rpt_config.get(), "rpt_config"); chk(a.rft_config.get() == b.rft_config.get(), "rft_config");
    chk(a.guide_rate.get() == b.guide_rate.get(), "guide_rate"); chk(a.tuning() == b.tuning(), "tuning"); chk(a.well_order.get() == b.well_order.get(), "well_order");
    chk(a.group_order.get() == b.group_order.get(), "group_order"); chk(a.glo.get() == b.glo.get(), "glo"); chk(a.network.get() == b.network.get(), "network");
    chk(a.network_balance.get() == b.network_balance.get(), "network_balance");
    chk(a.bhp_defaults.get() == b.bhp_defaults.get(), "bhp_defaults"); chk(gconsale_equal_modulo_unit_cache(a, b), "gconsale"); chk(gconsump_equal_modulo_unit_cache(a, b), "gconsump");
    chk(a.source.get() == b.source.get(), "source");
    chk(a.target_wellpi == b.target_wellpi, "target_wellpi"); chk(a.next_tstep == b.next_tstep, "next_tstep"); chk(vfpprod_equal_modulo_location(a, b), "vfpprod"); chk(vfpinj_equal_modulo_location(a, b), "vfpinj");
    chk(a.start_time() == b.start_time(), "start_time"); chk(a.sim_step() == b.sim_step(), "sim_step"); chk(a.rptonly() == b.rptonly(), "rptonly"); chk(a.sumthin() == b.sumthin(), "sumthin");
    chk(a.oilvap() == b.oilvap(), "oilvap"); chk(a.nupcol() == b.nupcol(), "nupcol"); chk(a.whistctl() == b.whistctl(), "whistctl");
    chk(a.month_num() == b.month_num() && a.year_num() == b.year_num() && a.first_in_month() == b.first_in_month() && a.first_in_year() == b.first_in_year(), "calendar_flags");
    chk(a.message_limits() == b.message_limits(), "message_limits"); chk(a.geo_keywords() == b.geo_keywords(), "geo_keywords");
    return differs;
}

std::vector<char> pack_state(const Opm::Schedule& s, std::size_t k) {
    Opm::Serialization::MemPacker packer; Ser ser(packer); ser.pack(s[k]); return ser.buf();
}
std::shared_ptr<Opm::ScheduleState> deep_copy_state(const Opm::Schedule& s, std::size_t k) {
    Opm::Serialization::MemPacker packer; Ser ser(packer); ser.pack(s[k]);
    auto c = std::make_shared<Opm::ScheduleState>();
    ser.unpack(*c);
    return c;
}
std::vector<char> pack_schedule(const Opm::Schedule& s) {
    Opm::Serialization::MemPacker packer; Ser ser(packer); ser.pack(s); return ser.buf();
}

Trip trip_schedule(const Opm::Schedule& src, std::unique_ptr<Opm::Schedule>& dst, std::shared_ptr<Opm::Python> python, Opm::Schedule* inplace) {
    return trip(src, dst, [&] { return std::make_unique<Opm::Schedule>(python); }, StdEq{}, inplace);
}
Trip trip_eclipse_state(const Opm::EclipseState& src, std::unique_ptr<Opm::EclipseState>& dst) {
    return trip(src, dst, [] { return std::make_unique<Opm::EclipseState>(); }, EsEq{});
}
Trip trip_summary_config(const Opm::SummaryConfig& src, std::unique_ptr<Opm::SummaryConfig>& dst) {
    return trip(src, dst, [] { return std::make_unique<Opm::SummaryConfig>(); }, StdEq{});
}
Trip trip_summary_state(const Opm::SummaryState& src, std::unique_ptr<Opm::SummaryState>& dst) {
    return trip(src, dst, [] { return std::make_unique<Opm::SummaryState>(Opm::TimeService::from_time_t(0), 0.0); }, StdEq{});
}
Trip trip_udq_state(const Opm::UDQState& src, std::unique_ptr<Opm::UDQState>& dst) {
    return trip(src, dst, [] { return std::make_unique<Opm::UDQState>(0.0); }, StdEq{});
}
Trip trip_action_state(const Opm::Action::State& src, Opm::Action::State& dst) {
    std::unique_ptr<Opm::Action::State> p; Trip t = trip(src, p, [] { return std::make_unique<Opm::Action::State>(); }, StdEq{}); dst = *p; return t;
}
Trip trip_wtest_state(const Opm::WellTestState& src, Opm::WellTestState& dst) {
    std::unique_ptr<Opm::WellTestState> p; Trip t = trip(src, p, [] { return std::make_unique<Opm::WellTestState>(); }, StdEq{}); dst = *p; return t;
}
Trip trip_restart_value(const Opm::RestartValue& src, std::unique_ptr<Opm::RestartValue>& dst) {
    return trip(src, dst, [] { return std::make_unique<Opm::RestartValue>(); }, StdEq{});
}

} // namespace srun
