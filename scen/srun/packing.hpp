// Transport / checkpoint seam (F10): everything that crosses it goes through Serializer<MemPacker>.
#pragma once
#include <memory>
#include "driver.hpp"
#include <string>
#include <vector>

namespace srun {

std::vector<char> pack_state(const Opm::Schedule& s, std::size_t k);
// an independent deep copy of snapshot k (pack, unpack into a fresh ScheduleState): shares no object with the schedule
std::shared_ptr<Opm::ScheduleState> deep_copy_state(const Opm::Schedule& s, std::size_t k);
std::vector<char> pack_schedule(const Opm::Schedule& s);

// member-wise equality of two schedule states (the members ScheduleState::operator== compares); returns the first differing member or ""
std::string state_member_diff(const Opm::ScheduleState& a, const Opm::ScheduleState& b, bool mask_events, bool mask_udq, bool mask_end_time);

struct Trip { std::size_t packed = 0, consumed = 0, repacked = 0, packed_now = 0; bool equal = false; bool repack_equal_after_unpack = false; };

// pack `src`, unpack into a fresh object (returned through `dst`), pack the replica again and unpack that once more
// `inplace`: after the checks the packed bytes are unpacked into this live object (how a checkpoint is loaded; Schedule::serializeOp
// re-links the wells' unit-system pointers, a moved/copied Schedule would keep pointers into its source)
Trip trip_schedule(const Opm::Schedule& src, std::unique_ptr<Opm::Schedule>& dst, std::shared_ptr<Opm::Python> python, Opm::Schedule* inplace = nullptr);
Trip trip_eclipse_state(const Opm::EclipseState& src, std::unique_ptr<Opm::EclipseState>& dst);
Trip trip_summary_config(const Opm::SummaryConfig& src, std::unique_ptr<Opm::SummaryConfig>& dst);
Trip trip_summary_state(const Opm::SummaryState& src, std::unique_ptr<Opm::SummaryState>& dst);
Trip trip_udq_state(const Opm::UDQState& src, std::unique_ptr<Opm::UDQState>& dst);
Trip trip_action_state(const Opm::Action::State& src, Opm::Action::State& dst);
Trip trip_wtest_state(const Opm::WellTestState& src, Opm::WellTestState& dst);
Trip trip_restart_value(const Opm::RestartValue& src, std::unique_ptr<Opm::RestartValue>& dst);

} // namespace srun
