// S-RUN driver (DESIGN section 4): the time loop is ours (a stub modelled on msim::run/run_step/post_step
// plus the Action::State::add_run a production driver performs); every library call is real code.
#pragma once
#include "model.hpp"
#include "../../simcore/simfs.hpp"

#include <opm/input/eclipse/Deck/Deck.hpp>
#include <opm/input/eclipse/EclipseState/EclipseState.hpp>
#include <opm/input/eclipse/EclipseState/SummaryConfig/SummaryConfig.hpp>
#include <opm/input/eclipse/Schedule/Schedule.hpp>
#include <opm/input/eclipse/Schedule/SummaryState.hpp>
#include <opm/input/eclipse/Schedule/Action/State.hpp>
#include <opm/input/eclipse/Schedule/Action/ActionX.hpp>
#include <opm/input/eclipse/Schedule/Action/ActionResult.hpp>
#include <opm/input/eclipse/Schedule/UDQ/UDQState.hpp>
#include <opm/input/eclipse/Schedule/Well/WellTestState.hpp>
#include <opm/input/eclipse/Python/Python.hpp>
#include <opm/output/data/Wells.hpp>
#include <opm/output/data/Solution.hpp>
#include <opm/output/data/Groups.hpp>
#include <opm/output/eclipse/EclipseIO.hpp>
#include <opm/output/eclipse/RestartValue.hpp>
#include <opm/io/eclipse/rst/state.hpp>

#include <functional>
#include <memory>
#include <optional>
#include <string>
#include <vector>

namespace srun {

struct World;

struct Firing { int step; std::string action; std::vector<std::string> wells; double sim_time; std::vector<std::string> shut_closed = {}; /* wells that stood SHUT with every connection shut in state `step` when the application began */ };

struct Observer {
    virtual ~Observer() = default;
    // right after Summary::eval + UDQ eval of a ministep ending at t (seconds since START); dt = its length
    virtual void after_eval(World&, int /*report_step*/, double /*t*/, double /*dt*/, const Opm::data::Wells&) {}
    // right after writeTimeStep returned
    virtual void after_write(World&, int /*report_step*/, bool /*substep*/, double /*t*/, const Opm::RestartValue&) {}
    // every evaluation of a pending action (fired or not)
    virtual void on_action_eval(World&, int /*report_step*/, const Opm::Action::ActionX&, const Opm::Action::Result&) {}
    // before the pending set is computed at the end of report step r
    virtual void before_actions(World&, int /*report_step*/) {}
    virtual void after_apply(World&, int /*report_step*/, const Firing&) {}
    virtual void end_of_step(World&, int /*report_step*/) {}
};

// decks shipped under /repo/tests that the tree can build a Schedule from without external state: have a SCHEDULE section,
// no PYACTION (Python is not built in), no RESTART (needs the restart file); `min_time_keywords` DATES/TSTEP keywords; sorted
std::vector<std::string> shipped_decks(std::size_t min_time_keywords);

struct ExtraDef { const char* key; Opm::UnitSystem::measure dim; };
const std::vector<ExtraDef>& extra_catalogue();

struct RunCfg {
    std::string base = "BASE";
    bool write_double = false;
    bool ecl_compat = false;                // IOConfig::setEclCompatibleRST: single precision only, no extra vectors
    bool esmry = false;
    std::uint64_t physics_seed = 1;
    // ministep fractions per report step (index r-1): ascending, last == 1.0; empty => one ministep
    std::vector<std::vector<double>> ministeps;
    std::vector<double> wall_advance;       // seconds of simulated wall clock per ministep, cycled
    bool shut_report_rates = false;         // C09 probe: a well reported SHUT still carries non-zero stub rates (must be ignored)
    unsigned extra_mask = 1;                // which extra restart arrays the run saves / a restarted run asks for (bit k = extra_catalogue()[k])
    bool wtest_activity = false;            // the physics stub closes wells that have a WTEST entry (economic/physical) and re-tests them as a simulator does (WellTestState content)
    bool add_run = true;                    // the Action::State::add_run a production driver performs
};

// One "process": all objects of a run.  A restarted run is a *new* World built from deck_B + durable files only.
struct World {
    RunCfg cfg;
    std::string deck_string;
    Opm::Deck deck;
    std::shared_ptr<Opm::Python> python;
    std::unique_ptr<Opm::EclipseState> es;
    std::unique_ptr<Opm::Schedule> sched;
    std::unique_ptr<Opm::SummaryConfig> sumcfg;
    std::unique_ptr<Opm::EclipseIO> io;
    std::unique_ptr<Opm::SummaryState> st;
    std::unique_ptr<Opm::UDQState> udq;
    Opm::Action::State astate;
    Opm::WellTestState wtest;
    std::unique_ptr<Opm::RestartIO::RstState> rst;     // only for restarted runs
    Opm::RestartValue restored{Opm::data::Solution{}, Opm::data::Wells{}, Opm::data::GroupAndNetworkValues{}, {}};
    int restart_step = -1;
    std::vector<Firing> firings;
    double sim_seconds = 0;
    long ministeps_done = 0;

    // build from deck text; restart_step >= 0: the deck holds RESTART and the files of the base run are in the cwd
    static std::unique_ptr<World> create(const std::string& deck_text, const RunCfg& cfg, int restart_step = -1);
    void write_initial();
    // run report steps [first, last]; stops early (returns false) when the simulated disk died
    bool run(int first, int last, Observer* obs);
    // the action evaluation at the end of report step r (public: run B starts with it)
    void post_step(int r, Observer* obs);
    int last_step() const { return static_cast<int>(sched->size()) - 1; }
};

Opm::data::Wells physics(const World& w, int report_step, double t);
Opm::data::Solution solution(const World& w, int report_step, double t);

std::string describe_real_vs_stub();

// directory handling inside the run root: library code always works on relative paths in the cwd
void enter_dir(const std::string& sub);                       // mkdir -p <root>/<sub> ; chdir there ("" = root)
void copy_files(const std::string& from_sub, const std::string& to_sub);   // regular files only, relative to the run root

} // namespace srun
