// modelgen (DESIGN 3.7): produces the deck text AND a structured description used by oracles.
// A model is a pure function of (seed, options, drop lists): the plan stores those, so that the
// shrinker can drop wells / steps / actions / keywords without storing whole decks in replay files.
#pragma once
#include "../../simcore/json.hpp"
#include "../../simcore/rng.hpp"
#include <map>
#include <set>
#include <string>
#include <vector>

namespace srun {

struct Kw {
    std::string name;
    std::vector<std::vector<std::string>> recs;   // each record = tokens; printed "tok tok … /"
    bool terminated = true;                        // keyword ends with a line holding a single "/"
    std::string raw;                               // non-empty: printed verbatim (one or more complete keywords of a family the generator does not model)
    std::string text() const;
};

// one comparison of an ACTIONX condition, kept structured for the reference evaluator (C18)
struct Cmp {
    std::string lhs;            // quantity, e.g. FOPT, WOPT, GOPT, DAY, MNTH, YEAR, FU_X
    std::vector<std::string> lhs_args;   // well/group name or pattern (may be empty)
    std::string op;             // > < >= <= = !=
    std::string rhs;            // number or quantity or month name
    std::vector<std::string> rhs_args;
    int open_paren = 0, close_paren = 0;
    std::string logic;          // "", "AND", "OR" (connective to the NEXT comparison)
    std::vector<std::string> tokens() const;
};

struct ActionDef {
    std::string name;
    int max_run = 1;
    double min_wait = 0;        // seconds
    std::vector<Cmp> cond;
    std::vector<Kw> body;
    int def_step = 0;           // block in which the ACTIONX keyword is written
};

struct WellDef {
    std::string name, group;
    int i = 1, j = 1, k1 = 1, k2 = 1;
    std::string kind;           // OPROD WINJ GINJ
    bool history = false;
    bool msw = false;
    std::string status0 = "OPEN";
};

struct StepDef {
    bool by_date = false;
    double days = 1;            // step length in days (TSTEP) — in LAB decks printed as hours
    int y = 0, m = 0, d = 0, hh = 0, mm = 0, ss = 0;   // DATES entry when by_date
    std::vector<Kw> kws;        // keywords of the block that *ends* with this TSTEP/DATES (block index = step index)
    std::vector<ActionDef> actions;   // ACTIONX blocks written in this block
};

struct GenOpts {
    // swarm knobs, drawn per run by the scenario's generate(); all have defaults
    int max_wells = 6, max_steps = 8, max_actions = 2, max_udq = 2;
    int min_wells = 1;
    bool late_edits = false;                // later blocks also carry WPIMULT, WSEGVALV (MSW wells), COMPDAT re-specification, WECON, WTEST on wells that exist since block 0
    bool udq_unary_minus = false;           // UDQ DEFINE expressions with a unary minus (-FOPT * 2, -(FOPT + 10), -WOPT)
    bool per_step_kws = false;              // C04 exception clauses: global / connection WPIMULT (power-of-two factors) and connection-level WELOPEN in ACTIONX bodies; connection-level WELOPEN in later blocks
    bool frac_dates = false;                // ACTIONX date comparisons with a non-integer right-hand side (DAY > 15.5, YEAR < 2025.25, MNTH = 4.3)
    bool wecon_full = false;                // WECON records also set min gas rate, max GOR, max WGR and the workover procedure
    bool gconinje = false;                  // GCONINJE (water / gas; RATE and RESV limits) on a group below FIELD, in block 0 and sometimes again later
    bool tuning_vfp = false;                // NEXTSTEP in ACTIONX bodies and later blocks; a VFPPROD table in block 0 that later blocks define again
    bool family_snippets = false;           // later blocks carry complete keywords of further families (group controls, gas lift, guide rates, RFT, well lists, VFPINJ, TUNING, RPTRST ...)
    bool family_static_free = false;        // leave out the families from whose mere presence the library infers run-wide configuration (LIFTOPT -> ALQ meaning of VFPPROD tables, GRUPNET -> network active): C03
    bool geo_kws = false;                   // MULTX/MULTY/MULTZ(-) over the whole grid in later blocks and in ACTIONX bodies (ScheduleState::geo_keywords)
    bool reparent_groups = false;           // GRUPTREE records that move an existing group (later blocks: anywhere legal; action bodies: to FIELD)
    bool allow_msw = true, allow_history = true, allow_groups = true;
    bool restart_safe_conditions = false;   // ACTIONX conditions only over quantities a restart restores
    bool nonmidnight = true;                // report steps off midnight (TSTEP fractions, DATES with time)
    bool step_events = true;                // WEFAC/GEFAC/WELOPEN/… changes in later blocks
    bool action_inline_safe = false;        // C04: only bodies from the calibrated action-supported set
    int vector_target = 0;                  // pad SUMMARY section to about this many vectors (C10)
    std::string units;                      // "" = random
    int fmtout = -1, unifout = -1;          // -1 = random
    bool esmry = false;
    bool rptonly = false, sumthin = false;
    bool date_conditions = true;            // DAY/MNTH/YEAR comparisons in ACTIONX conditions
    bool nested_parens = true;
    double cond_well_bias = 0;              // > 0: this share of the comparisons are well-pattern comparisons, conditions have 3-6 comparisons and at least one parenthesis pair
    bool weltarg_safe = true;               // see DESIGN 8 (known finding: WELTARG on a defaulted WCONPROD target ignores the deck unit system)
    bool stop_safe = false;                 // every well has >= 2 connections, so that a STOP well can cross-flow and survives a restart as STOP              // more than one parenthesis on one side of a comparison
    sim::Json to_json() const; static GenOpts from_json(const sim::Json& j);
};

struct Model {
    std::uint64_t seed = 0;
    std::string units = "METRIC";           // METRIC FIELD LAB PVT-M
    bool fmtout = false, unifout = true;
    int nx = 3, ny = 3, nz = 2;
    std::vector<int> actnum;
    std::vector<double> dx, dy, dz; double tops = 2000;
    int sy = 2020, sm = 1, sd = 1;          // START
    std::vector<std::pair<std::string, std::string>> gruptree;    // child, parent (top-down order)
    std::vector<WellDef> wells;
    std::vector<Kw> block0;                 // keywords before the first TSTEP/DATES (after well definitions)
    std::vector<ActionDef> actions0;
    std::vector<StepDef> steps;             // steps[k] ends report step k+1; its kws/actions belong to block k (k>=1; block 0 = block0)
    std::vector<std::string> summary;       // SUMMARY section lines
    std::vector<std::string> udq_names;     // UDQ quantities defined somewhere
    bool rptonly = false; double sumthin = 0;
    int rst_basic = 2;

    int nsteps() const { return static_cast<int>(steps.size()); }
    std::vector<std::string> well_names() const;
    std::vector<std::string> group_names() const;       // without FIELD
    const std::vector<ActionDef>& actions_of_block(int k) const { return k == 0 ? actions0 : steps[static_cast<size_t>(k)].actions; }
};

struct DeckOpts {
    int restart_step = -1;              // >= 0: SOLUTION holds RESTART '<restart_base>' n
    std::string restart_base = "BASE";
    bool skiprest = true;
    int truncate_after = -1;            // keep report steps 1..k only (C03)
    std::map<int, std::vector<Kw>> append_to_block;   // extra keywords at the end of block n (C04 inlining)
    const std::vector<StepDef>* other_tail = nullptr; int tail_from = -1;   // replace steps after tail_from (C03)
    bool strip_actions = false;
};

Model generate_model(std::uint64_t seed, const GenOpts& o);
// shrink support: drop lists are applied after generation
void apply_drops(Model& m, const sim::Json& drops);
std::string deck_text(const Model& m, const DeckOpts& d = {});
// reach measure: how often each SCHEDULE keyword occurs in the model ("kw.<NAME>" in block 0, "kw.late.<NAME>" in later blocks, "kw.action.<NAME>" in ACTIONX bodies)
void kw_histogram(const Model& m, std::map<std::string, long>& out);
std::string month_name(int m);

// calendar helpers (independent of the library)
long long days_from_civil(int y, int m, int d);
void civil_from_days(long long z, int& y, int& m, int& d);

} // namespace srun
