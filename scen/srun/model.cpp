#include "model.hpp"
#include <cstdlib>

#include <algorithm>
#include <cmath>
#include <cstdio>
#include <sstream>

namespace srun {

using sim::Rng;
using sim::Json;

static std::string num(double v) { char b[40]; std::snprintf(b, sizeof b, "%.10g", v); return b; }
static std::string q(const std::string& s) { return "'" + s + "'"; }

std::string month_name(int m) {
    static const char* n[] = {"JAN", "FEB", "MAR", "APR", "MAY", "JUN", "JUL", "AUG", "SEP", "OCT", "NOV", "DEC"};
    return n[(m + 11) % 12];
}

long long days_from_civil(int y, int m, int d) {
    y -= m <= 2;
    const long long era = (y >= 0 ? y : y - 399) / 400;
    const unsigned yoe = static_cast<unsigned>(y - era * 400);
    const unsigned doy = (153 * (m > 2 ? m - 3 : m + 9) + 2) / 5 + static_cast<unsigned>(d) - 1;
    const unsigned doe = yoe * 365 + yoe / 4 - yoe / 100 + doy;
    return era * 146097 + static_cast<long long>(doe) - 719468;
}
void civil_from_days(long long z, int& y, int& m, int& d) {
    z += 719468;
    const long long era = (z >= 0 ? z : z - 146096) / 146097;
    const unsigned doe = static_cast<unsigned>(z - era * 146097);
    const unsigned yoe = (doe - doe / 1460 + doe / 36524 - doe / 146096) / 365;
    const long long yy = static_cast<long long>(yoe) + era * 400;
    const unsigned doy = doe - (365 * yoe + yoe / 4 - yoe / 100);
    const unsigned mp = (5 * doy + 2) / 153;
    d = static_cast<int>(doy - (153 * mp + 2) / 5 + 1);
    m = static_cast<int>(mp < 10 ? mp + 3 : mp - 9);
    y = static_cast<int>(yy + (m <= 2));
}

std::string Kw::text() const {
    if (!raw.empty()) return raw;
    std::string s = name + "\n";
    for (auto& r : recs) { s += " "; for (auto& t : r) { s += " "; s += t; } s += " /\n"; }
    if (terminated) s += "/\n";
    return s;
}

std::vector<std::string> Cmp::tokens() const {
    std::vector<std::string> t;
    for (int k = 0; k < open_paren; ++k) t.push_back("(");
    t.push_back(lhs);
    for (auto& a : lhs_args) t.push_back(q(a));
    t.push_back(op);
    t.push_back(rhs);
    for (auto& a : rhs_args) t.push_back(q(a));
    for (int k = 0; k < close_paren; ++k) t.push_back(")");
    if (!logic.empty()) t.push_back(logic);
    return t;
}

sim::Json GenOpts::to_json() const {
    Json j = Json::object();
    j["max_wells"] = max_wells; j["max_steps"] = max_steps; j["max_actions"] = max_actions; j["max_udq"] = max_udq;
    j["allow_msw"] = allow_msw; j["allow_history"] = allow_history; j["allow_groups"] = allow_groups;
    j["restart_safe_conditions"] = restart_safe_conditions; j["nonmidnight"] = nonmidnight; j["step_events"] = step_events;
    j["action_inline_safe"] = action_inline_safe; j["vector_target"] = vector_target; j["units"] = units;
    j["fmtout"] = fmtout; j["unifout"] = unifout; j["esmry"] = esmry; j["rptonly"] = rptonly; j["sumthin"] = sumthin; j["date_conditions"] = date_conditions; j["nested_parens"] = nested_parens; j["stop_safe"] = stop_safe; j["weltarg_safe"] = weltarg_safe; j["cond_well_bias"] = cond_well_bias; j["min_wells"] = min_wells; j["reparent_groups"] = reparent_groups; j["late_edits"] = late_edits; j["geo_kws"] = geo_kws; j["family_snippets"] = family_snippets; j["family_static_free"] = family_static_free; j["tuning_vfp"] = tuning_vfp; j["udq_unary_minus"] = udq_unary_minus; if (per_step_kws) j["per_step_kws"] = true; if (frac_dates) j["frac_dates"] = true; if (wecon_full) j["wecon_full"] = true; if (gconinje) j["gconinje"] = true;
    return j;
}
GenOpts GenOpts::from_json(const Json& j0) {
    // development aid: VERIF_GEN_OVERRIDE='{"late_edits":true}' overrides knobs of every plan (never set by the registered commands)
    Json j = j0;
    if (const char* e = getenv("VERIF_GEN_OVERRIDE")) { Json ov = Json::parse(e); for (auto& kv : ov.o) j[kv.first] = kv.second; }
    GenOpts o;
    o.max_wells = static_cast<int>(j.geti("max_wells", o.max_wells)); o.max_steps = static_cast<int>(j.geti("max_steps", o.max_steps));
    o.max_actions = static_cast<int>(j.geti("max_actions", o.max_actions)); o.max_udq = static_cast<int>(j.geti("max_udq", o.max_udq));
    o.allow_msw = j.getb("allow_msw", o.allow_msw); o.allow_history = j.getb("allow_history", o.allow_history); o.allow_groups = j.getb("allow_groups", o.allow_groups);
    o.restart_safe_conditions = j.getb("restart_safe_conditions", o.restart_safe_conditions); o.nonmidnight = j.getb("nonmidnight", o.nonmidnight);
    o.step_events = j.getb("step_events", o.step_events); o.action_inline_safe = j.getb("action_inline_safe", o.action_inline_safe);
    o.vector_target = static_cast<int>(j.geti("vector_target", 0)); o.units = j.gets("units", "");
    o.fmtout = static_cast<int>(j.geti("fmtout", -1)); o.unifout = static_cast<int>(j.geti("unifout", -1)); o.esmry = j.getb("esmry", false);
    o.rptonly = j.getb("rptonly", false); o.sumthin = j.getb("sumthin", false); o.date_conditions = j.getb("date_conditions", o.date_conditions); o.nested_parens = j.getb("nested_parens", o.nested_parens); o.stop_safe = j.getb("stop_safe", o.stop_safe); o.cond_well_bias = j.getd("cond_well_bias", 0.0); o.min_wells = static_cast<int>(j.geti("min_wells", 1)); o.reparent_groups = j.getb("reparent_groups", false); o.late_edits = j.getb("late_edits", false); o.geo_kws = j.getb("geo_kws", false); o.family_snippets = j.getb("family_snippets", false); o.family_static_free = j.getb("family_static_free", false); o.tuning_vfp = j.getb("tuning_vfp", false); o.udq_unary_minus = j.getb("udq_unary_minus", false); o.weltarg_safe = j.getb("weltarg_safe", false); o.per_step_kws = j.getb("per_step_kws", false); o.frac_dates = j.getb("frac_dates", false); o.wecon_full = j.getb("wecon_full", false); o.gconinje = j.getb("gconinje", false);  // absent in replay files written before the knob existed
    return o;
}

std::vector<std::string> Model::well_names() const { std::vector<std::string> v; for (auto& w : wells) v.push_back(w.name); return v; }
std::vector<std::string> Model::group_names() const {
    std::vector<std::string> v;
    for (auto& g : gruptree) if (std::find(v.begin(), v.end(), g.first) == v.end()) v.push_back(g.first);
    for (auto& w : wells) if (std::find(v.begin(), v.end(), w.group) == v.end()) v.push_back(w.group);
    return v;
}

namespace {

struct Gen {
    Rng rng; const GenOpts& o; Model m;
    std::map<std::string, int> depth;             // group depth (FIELD = 0)
    std::set<std::string> node_groups, leaf_groups;
    std::map<std::string, std::string> parent_of;       // static group tree while blocks are generated (re-parenting events update it)
    double rate_scale = 1, pres_scale = 1;
    Gen(std::uint64_t seed, const GenOpts& oo) : rng(seed), o(oo) { m.seed = seed; }

    double rate() { return std::round(rng.real(50, 2000) * 10) / 10 * rate_scale; }
    double bhp_lim(bool inj) { return std::round((inj ? rng.real(300, 600) : rng.real(20, 150)) * pres_scale); }
    double efac() { static const double v[] = {1.0, 0.9, 0.75, 0.5, 0.25, 0.8}; return v[rng.below(6)]; }

    Kw wcon(const WellDef& w, const std::string& status) {
        Kw k;
        if (w.kind == "OPROD") {
            if (w.history) {
                k.name = "WCONHIST";
                static const char* cm[] = {"ORAT", "LRAT", "RESV", "ORAT"};
                k.recs.push_back({q(w.name), q(status), q(cm[rng.below(4)]), num(rate()), num(rate() / 2), num(rate() * 50)});
            } else {
                k.name = "WCONPROD";
                static const char* cm[] = {"ORAT", "LRAT", "GRAT", "WRAT", "BHP", "ORAT", "LRAT"};
                std::string c = cm[rng.below(7)];
                std::vector<std::string> r = {q(w.name), q(status), q(c), "1*", "1*", "1*", "1*", "1*", num(bhp_lim(false))};
                if (c == "ORAT") r[3] = num(rate()); else if (c == "WRAT") r[4] = num(rate()); else if (c == "GRAT") r[5] = num(rate() * 100); else if (c == "LRAT") r[6] = num(rate());
                if (rng.chance(0.3) && c != "ORAT") r[3] = num(rate() * 3);
                if (o.weltarg_safe) {
                    // known finding (DESIGN 8): WELTARG on a target that WCONPROD left defaulted is taken in METRIC units whatever the deck's
                    // unit system; give every rate target a value so that WELTARG/WTMULT in later blocks and actions never meets a defaulted one
                    if (r[3] == "1*") r[3] = num(rate() * 4);
                    if (r[4] == "1*") r[4] = num(rate() * 4);
                    if (r[5] == "1*") r[5] = num(rate() * 400);
                    if (r[6] == "1*") r[6] = num(rate() * 6);
                }
                k.recs.push_back(r);
            }
        } else {
            const std::string ph = w.kind == "WINJ" ? "WATER" : "GAS";
            if (w.history) { k.name = "WCONINJH"; k.recs.push_back({q(w.name), q(ph), q(status), num(rate() * (ph == "GAS" ? 100 : 1))}); }
            else { k.name = "WCONINJE"; k.recs.push_back({q(w.name), q(ph), q(status), q("RATE"), num(rate() * (ph == "GAS" ? 100 : 1)), "1*", num(bhp_lim(true))}); }
        }
        return k;
    }

    Cmp comparison(bool restart_safe) {
        Cmp c;
        static const char* ops[] = {">", "<", ">=", "<=", "=", "!="};
        c.op = ops[rng.below(rng.chance(0.85) ? 4 : 6)];
        std::vector<std::string> fieldq = restart_safe ? std::vector<std::string>{"FOPT", "FWPT", "FGPT", "FWIT", "FOPTH"} : std::vector<std::string>{"FOPT", "FWPT", "FOPR", "FWPR", "FWCT", "FGOR", "FLPR", "FWIR"};
        std::vector<std::string> wellq = restart_safe ? std::vector<std::string>{"WOPT", "WWPT", "WGPT"} : std::vector<std::string>{"WOPT", "WOPR", "WWPR", "WWCT", "WLPR", "WBHP", "WOPRH"};
        std::vector<std::string> groupq = restart_safe ? std::vector<std::string>{"GOPT", "GWPT"} : std::vector<std::string>{"GOPT", "GOPR", "GWPR", "GLPR"};
        double u = rng.unit();
        const bool forced_well = o.cond_well_bias > 0 && !m.wells.empty() && rng.chance(o.cond_well_bias);
        auto thresh = [&](const std::string& qn) {
            if (qn.find("CT") != std::string::npos) return num(std::round(rng.real(0.05, 0.9) * 100) / 100);
            if (qn == "FGOR") return num(std::round(rng.real(10, 200)));
            if (qn == "WBHP") return num(std::round(rng.real(50, 300) * pres_scale));
            bool total = qn.back() == 'T' || qn.substr(qn.size() - 2) == "TH";
            double v = std::exp(rng.real(std::log(total ? 300.0 : 30.0), std::log(total ? 3e5 : 3000.0))) * rate_scale * (qn[1] == 'G' ? 50 : 1);
            return num(std::round(v));
        };
        if (forced_well) {
            c.lhs = rng.pick(wellq);
            double v = rng.unit();
            c.lhs_args = {v < 0.5 ? std::string("*") : v < 0.8 ? std::string("P*") : std::string(1, m.wells[rng.below(m.wells.size())].name[0]) + "*"};
            c.rhs = thresh(c.lhs);
        }
        else if (u < 0.30) { c.lhs = rng.pick(fieldq); c.rhs = thresh(c.lhs); }
        else if (u < 0.62 && !m.wells.empty()) {
            c.lhs = rng.pick(wellq);
            double v = rng.unit();
            std::string arg;
            if (v < 0.45) arg = m.wells[rng.below(m.wells.size())].name;
            else if (v < 0.75) arg = "P*";
            else if (v < 0.9) arg = "*";
            else arg = std::string(1, m.wells[rng.below(m.wells.size())].name[0]) + "*";
            c.lhs_args = {arg}; c.rhs = thresh(c.lhs);
        } else if (u < 0.74 && !m.group_names().empty()) {
            c.lhs = rng.pick(groupq); auto g = m.group_names(); c.lhs_args = {g[rng.below(g.size())]}; c.rhs = thresh(c.lhs);
        } else if (u < 0.82 && !m.udq_names.empty()) {
            std::string un = m.udq_names[rng.below(m.udq_names.size())];
            if (un[0] == 'F') { c.lhs = un; c.rhs = num(std::round(rng.real(1, 2000))); }
            else { c.lhs = un; c.lhs_args = {rng.chance(0.5) ? std::string("P*") : m.wells[rng.below(m.wells.size())].name}; c.rhs = num(std::round(rng.real(1, 2000))); }
        } else if (restart_safe && !o.date_conditions) { c.lhs = rng.pick(fieldq); c.rhs = thresh(c.lhs); }
        else if (u < 0.90) { c.lhs = "DAY"; c.rhs = num(static_cast<double>(rng.range(1, 28))); }
        else if (u < 0.96) { c.lhs = "MNTH"; c.rhs = rng.chance(0.5) ? month_name(static_cast<int>(rng.range(1, 12))) : num(static_cast<double>(rng.range(1, 12))); }
        else { c.lhs = "YEAR"; c.rhs = num(static_cast<double>(m.sy + rng.range(0, 1))); }
        if (c.lhs == "MNTH" && (c.op == "=" || c.op == "!=") && rng.chance(0.5)) c.op = ">=";
        if (o.frac_dates && (c.lhs == "DAY" || c.lhs == "YEAR" || (c.lhs == "MNTH" && std::isdigit(static_cast<unsigned char>(c.rhs[0])))) && rng.chance(0.5)) {
            // only MNTH rounds a numeric right-hand side to the nearest month; DAY and YEAR compare as written
            static const double fr[] = {0.5, 0.25, 0.75, -0.5, -0.25, 0.3};
            c.rhs = num(std::atof(c.rhs.c_str()) + fr[rng.below(6)]);
        }
        return c;
    }

    std::vector<Cmp> condition(bool restart_safe) {
        int n = static_cast<int>(rng.chance(0.5) ? 1 : rng.range(2, rng.chance(0.2) ? 8 : 4));
        if (o.cond_well_bias > 0) n = static_cast<int>(rng.range(3, 6));
        std::vector<Cmp> cs;
        for (int k = 0; k < n; ++k) cs.push_back(comparison(restart_safe));
        for (int k = 0; k + 1 < n; ++k) cs[static_cast<size_t>(k)].logic = rng.chance(0.55) ? "AND" : "OR";
        // parentheses: pick up to 2 balanced ranges (nesting <= 3 overall)
        if (n >= 3) {
            int np = static_cast<int>(rng.below(3));
            if (o.cond_well_bias > 0 && np == 0) np = 1;
            for (int p = 0; p < np; ++p) {
                int a = static_cast<int>(rng.range(0, n - 2)), b = static_cast<int>(rng.range(a + 1, n - 1));
                const int lim = o.nested_parens ? 2 : 1;
                if (cs[static_cast<size_t>(a)].open_paren < lim && cs[static_cast<size_t>(b)].close_paren < lim) { ++cs[static_cast<size_t>(a)].open_paren; ++cs[static_cast<size_t>(b)].close_paren; }
            }
        }
        return cs;
    }

    bool is_descendant(const std::string& g, const std::string& anc) const { std::string c = g; int guard = 0; while (c != "FIELD" && guard++ < 16) { auto it = parent_of.find(c); if (it == parent_of.end()) return false; c = it->second; if (c == anc) return true; } return false; }
    int depth_of(const std::string& g) const { int d = 0; std::string c = g; while (c != "FIELD" && d < 16) { auto it = parent_of.find(c); if (it == parent_of.end()) break; c = it->second; ++d; } return d; }
    int height_of(const std::string& g) const { int h = 0; for (auto& kv : parent_of) if (kv.second == g) h = std::max(h, 1 + height_of(kv.first)); return h; }
    // GRUPTREE record that moves an existing group under another parent ("" if no legal move exists)
    Kw reparent(bool to_field_only) {
        Kw k; k.name = "GRUPTREE";
        std::vector<std::string> gs; for (auto& kv : parent_of) gs.push_back(kv.first);
        for (int attempt = 0; attempt < 8 && !gs.empty(); ++attempt) {
            const std::string child = gs[rng.below(gs.size())];
            std::vector<std::string> cand = {"FIELD"};
            if (!to_field_only) for (auto& n : node_groups) if (n != "FIELD" && n != child && !is_descendant(n, child) && depth_of(n) + 1 + height_of(child) <= 4) cand.push_back(n);
            const std::string np = cand[rng.below(cand.size())];
            if (np == parent_of[child]) continue;
            k.recs.push_back({q(child), q(np)});
            if (!to_field_only) { parent_of[child] = np; node_groups.insert(np); }
            return k;
        }
        return k;
    }

    Kw nextstep_kw() { Kw k; k.name = "NEXTSTEP"; k.terminated = false; std::vector<std::string> r = {num(std::round(rng.real(0.5, 5) * 4) / 4)}; if (rng.chance(0.5)) r.push_back(q("YES")); k.recs.push_back(r); return k; }
    Kw vfpprod_kw(int variant) {
        Kw k; k.name = "VFPPROD"; k.terminated = false;
        const double off = 5.0 * variant;
        k.recs.push_back({"1", num(2000 + 100 * variant), q("OIL"), q("WCT"), q("GOR"), q("THP"), "' '", "1*", q("BHP")});
        k.recs.push_back({"1", "10"}); k.recs.push_back({"10", "20"}); k.recs.push_back({"0", "0.5"}); k.recs.push_back({"100", "200"}); k.recs.push_back({"0"});
        int v = 0;
        for (int g = 1; g <= 2; ++g) for (int w = 1; w <= 2; ++w) for (int t = 1; t <= 2; ++t) { k.recs.push_back({std::to_string(t), std::to_string(w), std::to_string(g), "1", num(50 + off + 5 * (t - 1) + v), num(60 + off + 5 * (t - 1) + v)}); ++v; }
        return k;
    }

    Kw family_kw() {
        // {W}: any well, {P}: a prediction-mode oil producer, {G}: a group below FIELD
        static const char* lib[] = {
            "RPTRST\n 'BASIC=3' 'FREQ=2' /\n",
            "RPTSCHED\n 'FIP=2' 'WELLS=1' /\n",
            "WLIST\n '*LSTF' 'NEW' '{W}' /\n/\n",
            "VFPINJ\n 2 2000 'WAT' 'THP' 1* 'BHP' /\n 1 10 /\n 10 20 /\n 1 100 110 /\n 2 120 130 /\n",
            "GCONINJE\n 'FIELD' 'WATER' 'RATE' 1000 /\n/\n",
            "GCONPROD\n '{G}' 'ORAT' 500 3* 'RATE' /\n/\n",
            "LIFTOPT\n 12500 5E-3 0.0 'YES' /\nWLIFTOPT\n '{P}' 'YES' 150000 1.01 1.0 /\n/\nGLIFTOPT\n '{G}' 200000 1* /\n/\n",
            "WRFTPLT\n '{W}' 'YES' 'NO' 'NO' /\n/\n",
            "TUNING\n 1 10 /\n /\n /\n",
            "DRSDT\n 0.003 /\n",
            "GUIDERAT\n 0 'OIL' 1 0.5 1 1 0 0 'YES' 0.5 /\n",
            "WGRUPCON\n '{P}' 'YES' 0.5 'OIL' /\n/\n",
            "GCONSUMP\n '{G}' 10 /\n/\n",
            "GECON\n '{G}' 10 /\n/\n",
            "WPAVE\n 0.5 1.0 'WELL' 'OPEN' /\n",
            "WELPI\n '{P}' 10 /\n/\n",
            "COMPLUMP\n '{W}' 1* 1* 1* 1* 1 /\n/\n",
            "WTMULT\n '{P}' 'ORAT' 0.5 /\n/\n",
            "WVFPEXP\n '{P}' 'EXP' /\n/\n",
            "GRUPNET\n 'FIELD' 20 5* /\n/\n",
        };
        std::string t = lib[rng.below(sizeof lib / sizeof lib[0])];
        if (o.family_static_free && (t.rfind("LIFTOPT", 0) == 0 || t.rfind("GRUPNET", 0) == 0)) t = "DRSDT\n 0.003 /\n";
        std::string p; for (auto& w : m.wells) if (w.kind == "OPROD" && !w.history) { p = w.name; break; }
        std::string g = "FIELD"; for (auto& gg : m.gruptree) if (gg.second == "FIELD") { g = gg.first; break; }
        Kw k; k.name = "FAMILY";
        if (t.find("{P}") != std::string::npos && p.empty()) { k.name = "WEFAC"; k.recs.push_back({q(m.wells[0].name), num(efac())}); return k; }
        auto rep = [&](const std::string& key, const std::string& v) { for (size_t q2 = t.find(key); q2 != std::string::npos; q2 = t.find(key, q2 + v.size())) t.replace(q2, key.size(), v); };
        rep("{W}", m.wells[rng.below(m.wells.size())].name); rep("{P}", p); rep("{G}", g);
        k.raw = t; k.recs.push_back({"raw"});
        return k;
    }

    Kw geo_kw() {
        static const char* nm[] = {"MULTZ", "MULTX", "MULTY", "MULTZ-", "MULTX-", "MULTY-"};
        Kw k; k.name = nm[rng.below(6)]; k.terminated = false;
        k.recs.push_back({std::to_string(m.nx * m.ny * m.nz) + "*" + num(std::round(rng.real(0.1, 2.0) * 100) / 100)});
        return k;
    }

    std::vector<std::string> wecon_rec(const std::string& wname) {
        std::vector<std::string> r = {q(wname), num(std::round(rng.real(1, 50))), "1*", num(std::round(rng.real(0.5, 0.95) * 100) / 100), "2*", q("WELL")};
        if (o.wecon_full && rng.chance(0.6)) {
            static const char* wo[] = {"WELL", "CON", "NONE", "+CON"};
            if (rng.chance(0.6)) r[2] = num(std::round(rng.real(1, 500)));
            r[4] = rng.chance(0.7) ? num(std::round(rng.real(2, 60) * 10) / 10) : std::string("1*");
            r.insert(r.begin() + 5, rng.chance(0.7) ? num(std::round(rng.real(0.001, 0.2) * 1000) / 1000) : std::string("1*"));
            r[6] = q(wo[rng.below(4)]);
        }
        return r;
    }

    Kw body_kw(bool inline_safe) {
        Kw k;
        auto wn = [&]() { return rng.chance(0.6) ? std::string("?") : m.wells[rng.below(m.wells.size())].name; };
        std::vector<std::string> prods; for (auto& w : m.wells) if (w.kind == "OPROD" && !w.history) prods.push_back(w.name);
        double u = rng.unit();
        if (o.reparent_groups && u < 0.08) { k = reparent(true); if (!k.recs.empty()) return k; k = Kw(); }
        if (o.geo_kws && rng.chance(0.2)) return geo_kw();
        if (o.tuning_vfp && rng.chance(0.2)) return nextstep_kw();
        if (o.per_step_kws && rng.chance(0.35)) {
            // keywords whose meaning is defined per report step (C04 exception clause).  Action-side WPIMULT factors are powers of two so
            // that the accumulated product is exact in either association.
            const WellDef& w = m.wells[rng.below(m.wells.size())];
            const bool named = rng.chance(0.5);
            const std::string kk = std::to_string(static_cast<int>(rng.range(w.k1, w.k2)));
            if (rng.chance(0.3)) {
                // COMPDAT re-specification of existing connections from an action: the whole column (all connections shut -> automatic
                // shut-in at the end of the application) or one layer
                const double diam = m.units == "FIELD" ? 0.5 : m.units == "LAB" ? 10 : 0.2;
                const bool all = rng.chance(0.6); const std::string st = rng.chance(0.65) ? "SHUT" : "OPEN";
                k.name = "COMPDAT"; k.recs.push_back({q(w.name), std::to_string(w.i), std::to_string(w.j), all ? std::to_string(w.k1) : kk, all ? std::to_string(w.k2) : kk, q(st), "2*", num(diam), "1*", num(std::round(rng.real(0, 4) * 4) / 4)});
            } else if (rng.chance(0.5)) {
                static const char* f[] = {"0.25", "0.5", "2", "4"};
                k.name = "WPIMULT"; const int nr = rng.chance(0.25) ? 2 : 1;
                for (int r2 = 0; r2 < nr; ++r2) { k.recs.push_back({q(named ? w.name : std::string("?")), f[rng.below(4)]}); if (named && rng.chance(0.3)) { k.recs.back().push_back("2*"); k.recs.back().push_back(kk); } }
            } else {
                k.name = "WELOPEN"; const double v = rng.unit();
                // one connection (named well: its K; '?': any K in the grid) or all connections ("0 0 0")
                const std::string ksel = v < 0.5 ? (named ? kk : std::to_string(static_cast<int>(rng.range(1, m.nz)))) : "0";
                k.recs.push_back({q(named ? w.name : std::string("?")), q(rng.chance(0.5) ? "SHUT" : "OPEN"), "0", "0", ksel, "2*"});
            }
            return k;
        }
        if (u < 0.35) { k.name = "WELOPEN"; static const char* st[] = {"SHUT", "OPEN", "STOP", "SHUT"}; k.recs.push_back({q(wn()), q(st[rng.below(4)])}); }
        else if (u < 0.55) { k.name = "WEFAC"; k.recs.push_back({q(wn()), num(efac())}); }
        else if (u < 0.70 && !prods.empty()) { k.name = "WELTARG"; static const char* md[] = {"ORAT", "LRAT", "BHP", "WRAT"}; std::string mo = md[rng.below(4)]; k.recs.push_back({q(prods[rng.below(prods.size())]), q(mo), num(mo == "BHP" ? bhp_lim(false) : rate())}); }
        else if (u < 0.76) { k.name = "WECON"; k.recs.push_back(wecon_rec(wn())); }
        else if (u < 0.82) { k.name = "WTEST"; k.recs.push_back({q(wn()), num(static_cast<double>(rng.range(1, 30))), q("PE")}); }
        else if (u < 0.92 && !prods.empty()) {
            for (auto& w : m.wells) if (w.name == prods[rng.below(prods.size())]) { k = wcon(w, "OPEN"); break; }
            if (k.name.empty()) { k.name = "WEFAC"; k.recs.push_back({q(wn()), num(efac())}); }
        } else if (!m.group_names().empty()) { auto g = m.group_names(); k.name = "GCONPROD"; k.recs.push_back({q(g[rng.below(g.size())]), q("ORAT"), num(rate() * 3), "3*", q("RATE")}); }
        else { k.name = "WELOPEN"; k.recs.push_back({q(wn()), q("SHUT")}); }
        (void)inline_safe;
        return k;
    }

    ActionDef action(int idx, int def_step) {
        ActionDef a;
        a.name = "ACT" + std::to_string(idx + 1);
        static const int mr[] = {1, 2, 3, 10000, 1, 2};
        a.max_run = mr[rng.below(6)];
        double u = rng.unit();
        a.min_wait = u < 0.4 ? 0 : u < 0.5 ? 1 : u < 0.8 ? std::round(rng.real(0.2, 3) * 86400 * 10) / 10 : std::round(rng.real(5, 60)) * 86400;
        a.cond = condition(o.restart_safe_conditions);
        int nb = static_cast<int>(rng.range(1, 3));
        for (int k = 0; k < nb; ++k) a.body.push_back(body_kw(o.action_inline_safe));
        a.def_step = def_step;
        return a;
    }

    Kw udq_kw() {
        Kw k; k.name = "UDQ";
        int n = static_cast<int>(rng.range(1, 2));
        for (int q2 = 0; q2 < n; ++q2) {
            int id = static_cast<int>(m.udq_names.size()) + 1;
            double u = rng.unit();
            if (u < 0.35) { std::string nm = "FU_A" + std::to_string(id); k.recs.push_back({"ASSIGN", nm, num(std::round(rng.real(1, 1500)))}); m.udq_names.push_back(nm); }
            else if (u < 0.65) { std::string nm = "FU_D" + std::to_string(id); static const char* e[] = {"FOPT * 2", "FOPT + FWPT", "FWPT / 3 + 1", "(FOPT + 10) * 0.5", "FOPR * 0.5"}; std::string ex = e[rng.below(o.restart_safe_conditions ? 4 : 5)];
                if (o.udq_unary_minus && rng.chance(0.4)) { static const char* en[] = {"-FOPT * 2", "-(FOPT + 10)", "5 - -FWPT"}; ex = en[rng.below(3)]; } std::vector<std::string> r = {"DEFINE", nm}; std::istringstream is(ex); std::string t; while (is >> t) r.push_back(t); k.recs.push_back(r); m.udq_names.push_back(nm); }
            else if (u < 0.85) { std::string nm = "WU_D" + std::to_string(id); static const char* e[] = {"WOPT * 2", "WOPT + WWPT", "WOPT 'P*' + 1"}; std::string ex = e[rng.below(3)];
                if (o.udq_unary_minus && rng.chance(0.4)) { static const char* en[] = {"-WOPT", "-(WOPT + WWPT)"}; ex = en[rng.below(2)]; } std::vector<std::string> r = {"DEFINE", nm}; std::istringstream is(ex); std::string t; while (is >> t) r.push_back(t); k.recs.push_back(r); m.udq_names.push_back(nm); }
            else { std::string nm = "WU_A" + std::to_string(id); k.recs.push_back({"ASSIGN", nm, num(std::round(rng.real(1, 900)))}); m.udq_names.push_back(nm); }
        }
        return k;
    }

    void build() {
        // ---- global knobs
        static const char* us[] = {"METRIC", "FIELD", "LAB", "PVT-M"};
        m.units = o.units.empty() ? us[rng.below(4)] : o.units;
        m.fmtout = o.fmtout < 0 ? rng.chance(0.3) : o.fmtout != 0;
        m.unifout = o.unifout < 0 ? rng.chance(0.7) : o.unifout != 0;
        rate_scale = m.units == "FIELD" ? 6.0 : m.units == "LAB" ? 40.0 : 1.0;      // only so that numbers look plausible per system
        pres_scale = m.units == "FIELD" ? 14.5 : 1.0;
        m.nx = static_cast<int>(rng.range(2, 5)); m.ny = static_cast<int>(rng.range(2, 5)); m.nz = static_cast<int>(rng.range(o.stop_safe ? 2 : 1, 4));
        double L = m.units == "FIELD" ? 300 : m.units == "LAB" ? 5000 : 100;
        for (int k = 0; k < m.nx * m.ny * m.nz; ++k) { m.dx.push_back(std::round(rng.real(0.5, 1.5) * L)); m.dy.push_back(std::round(rng.real(0.5, 1.5) * L)); m.dz.push_back(std::round(rng.real(0.05, 0.2) * L)); }
        m.tops = std::round(20 * L);
        m.sy = static_cast<int>(rng.range(2015, 2024)); m.sm = static_cast<int>(rng.range(1, 12)); m.sd = static_cast<int>(rng.range(1, 28));

        // ---- groups
        int ng = o.allow_groups ? static_cast<int>(rng.range(1, 6)) : 1;
        depth["FIELD"] = 0;
        std::vector<std::string> groups;
        for (int g = 0; g < ng; ++g) {
            std::string name = "G" + std::to_string(g + 1);
            std::vector<std::string> cand = {"FIELD"};
            for (auto& p : groups) if (depth[p] < 3) cand.push_back(p);
            std::string parent = rng.chance(0.35) ? std::string("FIELD") : cand[rng.below(cand.size())];
            depth[name] = depth[parent] + 1;
            m.gruptree.push_back({name, parent}); parent_of[name] = parent;
            node_groups.insert(parent);
            groups.push_back(name);
        }
        for (auto& g : groups) if (!node_groups.count(g)) leaf_groups.insert(g);
        std::vector<std::string> leaves(leaf_groups.begin(), leaf_groups.end());

        // ---- wells
        int nw = static_cast<int>(rng.range(std::min(o.min_wells, m.nx * m.ny), std::min(o.max_wells, m.nx * m.ny)));
        std::vector<int> cols; for (int c = 0; c < m.nx * m.ny; ++c) cols.push_back(c);
        for (size_t c = cols.size(); c > 1; --c) std::swap(cols[c - 1], cols[rng.below(c)]);
        m.actnum.assign(static_cast<size_t>(m.nx * m.ny * m.nz), 1);
        int np = 0, nwi = 0, ngi = 0;
        for (int w = 0; w < nw; ++w) {
            WellDef wd;
            double u = rng.unit();
            wd.kind = (w == 0 || u < 0.6) ? "OPROD" : u < 0.85 ? "WINJ" : "GINJ";
            wd.name = wd.kind == "OPROD" ? "P" + std::to_string(++np) : wd.kind == "WINJ" ? "WI" + std::to_string(++nwi) : "GI" + std::to_string(++ngi);
            wd.group = leaves[rng.below(leaves.size())];
            wd.i = cols[static_cast<size_t>(w)] % m.nx + 1; wd.j = cols[static_cast<size_t>(w)] / m.nx + 1;
            wd.k1 = static_cast<int>(rng.range(1, m.nz)); wd.k2 = static_cast<int>(rng.range(wd.k1, m.nz));
            if (o.stop_safe) { wd.k1 = static_cast<int>(rng.range(1, m.nz - 1)); wd.k2 = static_cast<int>(rng.range(wd.k1 + 1, m.nz)); }
            wd.history = o.allow_history && rng.chance(0.3);
            wd.msw = o.allow_msw && wd.kind == "OPROD" && rng.chance(0.2);
            double s = rng.unit(); wd.status0 = s < 0.8 ? "OPEN" : s < 0.9 ? "SHUT" : "STOP";
            m.wells.push_back(wd);
        }
        // inactive cells away from well columns
        for (int c = nw; c < m.nx * m.ny; ++c) for (int k = 0; k < m.nz; ++k) if (rng.chance(0.25)) m.actnum[static_cast<size_t>(k * m.nx * m.ny + cols[static_cast<size_t>(c)])] = 0;

        // ---- block 0 keywords
        { Kw k; k.name = "RPTRST"; k.terminated = false; k.recs.push_back({q("BASIC=2")}); m.block0.push_back(k); }
        { Kw k; k.name = "GRUPTREE"; for (auto& g : m.gruptree) k.recs.push_back({q(g.first), q(g.second)}); m.block0.push_back(k); }
        { Kw k; k.name = "WELSPECS"; for (auto& w : m.wells) k.recs.push_back({q(w.name), q(w.group), std::to_string(w.i), std::to_string(w.j), "1*", q(w.kind == "OPROD" ? "OIL" : w.kind == "WINJ" ? "WATER" : "GAS")}); m.block0.push_back(k); }
        { Kw k; k.name = "COMPDAT"; for (auto& w : m.wells) k.recs.push_back({q(w.name), std::to_string(w.i), std::to_string(w.j), std::to_string(w.k1), std::to_string(w.k2), q("OPEN"), "2*", num(m.units == "FIELD" ? 0.5 : m.units == "LAB" ? 10 : 0.2)}); m.block0.push_back(k); }
        for (auto& w : m.wells) if (w.msw) {
            Kw k; k.name = "WELSEGS";
            double top = m.tops, len = 0;
            k.recs.push_back({q(w.name), num(top), "0", "1*", q("INC"), q("HF-")});
            int nseg = w.k2 - w.k1 + 2;
            for (int s = 2; s <= nseg; ++s) { len = m.dz[0]; k.recs.push_back({std::to_string(s), std::to_string(s), "1", std::to_string(s - 1), num(len), num(len), num(m.units == "FIELD" ? 0.5 : m.units == "LAB" ? 10 : 0.2), num(m.units == "LAB" ? 0.01 : 0.0001)}); }
            m.block0.push_back(k);
            Kw c; c.name = "COMPSEGS"; c.recs.push_back({q(w.name)});
            double d0 = 0;
            for (int kk = w.k1; kk <= w.k2; ++kk) { c.recs.push_back({std::to_string(w.i), std::to_string(w.j), std::to_string(kk), "1", num(d0), num(d0 + m.dz[0])}); d0 += m.dz[0]; }
            m.block0.push_back(c);
        }
        for (auto& w : m.wells) m.block0.push_back(wcon(w, w.status0));
        for (auto& w : m.wells) if (rng.chance(0.35)) { Kw k; k.name = "WEFAC"; k.recs.push_back({q(w.name), num(efac())}); m.block0.push_back(k); }
        for (auto& g : groups) if (rng.chance(0.3)) { Kw k; k.name = "GEFAC"; k.recs.push_back({q(g), num(efac())}); m.block0.push_back(k); }
        if (o.tuning_vfp) m.block0.push_back(vfpprod_kw(0));
        if (o.gconinje && !m.group_names().empty() && rng.chance(0.7)) {
            auto gn = m.group_names(); Kw k; k.name = "GCONINJE";
            const int nr = rng.chance(0.3) ? 2 : 1;
            for (int r2 = 0; r2 < nr; ++r2) k.recs.push_back({q(gn[rng.below(gn.size())]), q(r2 == 0 && rng.chance(0.6) ? "WATER" : "GAS"), q(rng.chance(0.6) ? "RATE" : "RESV"), num(std::round(rng.real(500, 20000))), num(std::round(rng.real(500, 20000)))});
            if (nr == 2 && k.recs[0][0] == k.recs[1][0] && k.recs[0][1] == k.recs[1][1]) k.recs.pop_back();
            m.block0.push_back(k);
        }
        for (auto& g : groups) if (rng.chance(0.15)) { Kw k; k.name = "GCONPROD"; k.recs.push_back({q(g), q("ORAT"), num(rate() * 3), "3*", q("RATE")}); m.block0.push_back(k); }
        if (rng.chance(0.3) && m.wells.size() >= 2) { Kw k; k.name = "WLIST"; std::vector<std::string> r = {q("*LST1"), q("NEW")}; for (auto& w : m.wells) if (rng.chance(0.6)) r.push_back(q(w.name)); if (r.size() > 2) { k.recs.push_back(r); m.block0.push_back(k); } }
        int nudq = o.max_udq > 0 ? static_cast<int>(rng.range(0, o.max_udq)) : 0;
        for (int u = 0; u < nudq; ++u) m.block0.push_back(udq_kw());

        // ---- steps
        int ns = static_cast<int>(rng.range(2, o.max_steps));
        long long day = days_from_civil(m.sy, m.sm, m.sd); double sec_of_day = 0;
        for (int s = 0; s < ns; ++s) {
            StepDef st;
            st.by_date = rng.chance(0.35);
            double len_days;
            if (st.by_date) {
                long long add = rng.range(1, 45); day += add;
                int hh = 0, mi = 0, ss = 0;
                if (o.nonmidnight && rng.chance(0.4)) { hh = static_cast<int>(rng.range(0, 23)); mi = static_cast<int>(rng.range(0, 59)); ss = rng.chance(0.5) ? 0 : static_cast<int>(rng.range(0, 59)); }
                double nsod = hh * 3600.0 + mi * 60.0 + ss;
                len_days = static_cast<double>(add) + (nsod - sec_of_day) / 86400.0;
                sec_of_day = nsod;
                civil_from_days(day, st.y, st.m, st.d); st.hh = hh; st.mm = mi; st.ss = ss;
            } else {
                static const double frac[] = {0, 0, 0, 0.5, 0.25, 0.125};
                len_days = static_cast<double>(rng.range(1, rng.chance(0.15) ? 400 : 40)) + (o.nonmidnight ? frac[rng.below(6)] : 0);
                if (rng.chance(0.05)) len_days = 0.125;
                double tot = sec_of_day + len_days * 86400.0;
                long long whole = static_cast<long long>(std::floor(tot / 86400.0)); day += whole; sec_of_day = tot - static_cast<double>(whole) * 86400.0;
            }
            st.days = len_days;
            m.steps.push_back(st);
        }
        // ---- events in later blocks (block k = keywords between the k-th and (k+1)-th TSTEP/DATES)
        if (o.step_events) for (int s = 1; s < ns; ++s) {
            auto& st = m.steps[static_cast<size_t>(s)];
            int ne = static_cast<int>(rng.below(4));
            if (o.late_edits && rng.chance(0.3)) {
                // an injector that exists since block 0 becomes a producer (kept frequent on its own: the many other families of later
                // blocks had diluted it below what a quick run meets)
                std::vector<const WellDef*> inj; for (auto& w : m.wells) if (w.kind != "OPROD") inj.push_back(&w);
                if (!inj.empty()) { WellDef sw = *inj[rng.below(inj.size())]; sw.history = false; sw.kind = "OPROD"; st.kws.push_back(wcon(sw, "OPEN")); }
            }
            if (o.per_step_kws && rng.chance(0.35)) {
                // a well-wide WPIMULT for most wells in this block: an application at this step then multiplies onto a closed pass
                Kw k; k.name = "WPIMULT"; for (auto& w : m.wells) if (rng.chance(0.8)) k.recs.push_back({q(w.name), num(std::round(rng.real(0.25, 2.5) * 100) / 100)});
                if (!k.recs.empty()) st.kws.push_back(k);
            }
            for (int e = 0; e < ne; ++e) {
                double u = rng.unit(); Kw k;
                const WellDef& w = m.wells[rng.below(m.wells.size())];
                if (o.family_snippets && rng.chance(0.25)) k = family_kw();
                else if (o.tuning_vfp && rng.chance(0.15)) k = rng.chance(0.5) ? nextstep_kw() : vfpprod_kw(1 + static_cast<int>(rng.below(3)));
                else if (o.geo_kws && rng.chance(0.15)) k = geo_kw();
                else if (o.late_edits && rng.chance(0.4)) {
                    const double v = rng.unit(); const double diam = m.units == "FIELD" ? 0.5 : m.units == "LAB" ? 10 : 0.2;
                    if (v < 0.3) { k.name = "WPIMULT"; k.recs.push_back({q(w.name), num(std::round(rng.real(0.25, 2.5) * 100) / 100)}); if (rng.chance(0.4)) { k.recs.back().push_back("2*"); k.recs.back().push_back(std::to_string(static_cast<int>(rng.range(w.k1, w.k2)))); } }
                    else if (v < 0.55 && w.msw) { k.name = "WSEGVALV"; const int nseg = w.k2 - w.k1 + 2; const int nrec = static_cast<int>(rng.range(1, 2));
                        for (int r2 = 0; r2 < nrec; ++r2) k.recs.push_back({q(w.name), std::to_string(static_cast<int>(rng.range(2, nseg))), num(std::round(rng.real(0.4, 0.95) * 100) / 100), num(0.785 * diam * diam * std::round(rng.real(0.1, 0.9) * 16) / 16)}); }
                    else if (v < 0.75) { k.name = "COMPDAT"; const int kk = static_cast<int>(rng.range(w.k1, w.k2)); k.recs.push_back({q(w.name), std::to_string(w.i), std::to_string(w.j), std::to_string(kk), std::to_string(kk), q(rng.chance(0.8) || o.stop_safe ? "OPEN" : "SHUT"), "2*", num(diam * (rng.chance(0.5) ? 1.0 : 1.5)), "1*", num(std::round(rng.real(0, 4) * 4) / 4)}); }
                    else if (v < 0.82 && w.kind != "OPROD") { WellDef sw = w; sw.history = false; sw.kind = "OPROD"; k = wcon(sw, "OPEN"); }     // an injector becomes a producer (not the other way round: WELTARG ORAT/LRAT records elsewhere in the deck name producers)
                    else if (v < 0.88 && w.kind == "OPROD") { k.name = "WECON"; k.recs.push_back(wecon_rec(w.name)); }
                    else { k.name = "WTEST"; k.recs.push_back({q(w.name), num(static_cast<double>(rng.range(1, 30))), q("PE")}); }
                }
                else if (o.per_step_kws && rng.chance(0.25)) { k.name = "WELOPEN"; k.recs.push_back({q(w.name), q(rng.chance(0.7) ? "SHUT" : "OPEN"), "0", "0", rng.chance(0.6) ? std::string("0") : std::to_string(static_cast<int>(rng.range(w.k1, w.k2))), "2*"}); }
                else if (o.reparent_groups && u < 0.12) { k = reparent(false); if (k.recs.empty()) { k.name = "WEFAC"; k.recs.push_back({q(w.name), num(efac())}); } }
                else if (u < 0.2) { k.name = "WEFAC"; k.recs.push_back({q(w.name), num(efac())}); }
                else if (u < 0.32) { k.name = "GEFAC"; k.recs.push_back({q(groups[rng.below(groups.size())]), num(efac())}); }
                else if (u < 0.5) { k.name = "WELOPEN"; static const char* s3[] = {"SHUT", "OPEN", "STOP"}; k.recs.push_back({q(w.name), q(s3[rng.below(3)])}); }
                else if (u < 0.8) k = wcon(w, rng.chance(0.85) ? "OPEN" : "SHUT");
                else if (u < 0.9 && leaves.size() >= 1) {
                    // move a well to another leaf group
                    k.name = "WELSPECS"; k.recs.push_back({q(w.name), q(leaves[rng.below(leaves.size())]), std::to_string(w.i), std::to_string(w.j), "1*", q(w.kind == "OPROD" ? "OIL" : w.kind == "WINJ" ? "WATER" : "GAS")});
                } else if (o.max_udq > 0 && m.udq_names.size() < 6) k = udq_kw();
                else { k.name = "WEFAC"; k.recs.push_back({q(w.name), num(efac())}); }
                st.kws.push_back(k);
            }
        }
        // ---- actions
        int na = o.max_actions > 0 ? static_cast<int>(rng.range(0, o.max_actions)) : 0;
        if (o.max_actions > 0 && na == 0 && rng.chance(0.7)) na = 1;
        for (int a = 0; a < na; ++a) {
            int def = rng.chance(0.7) ? 0 : static_cast<int>(rng.range(0, ns - 1));
            ActionDef ad = action(a, def);
            if (def == 0) m.actions0.push_back(ad); else m.steps[static_cast<size_t>(def)].actions.push_back(ad);
        }
        m.rptonly = o.rptonly; m.sumthin = o.sumthin ? std::round(rng.real(1, 20)) : 0;

        // ---- SUMMARY
        auto& S = m.summary;
        for (const char* f : {"FOPR", "FOPT", "FWPR", "FWPT", "FGPR", "FGPT", "FLPR", "FLPT", "FVPR", "FVPT", "FWIR", "FWIT", "FGIR", "FGIT", "FVIR", "FVIT",
                              "FOPRH", "FOPTH", "FWPRH", "FWPTH", "FGPRH", "FGPTH", "FLPRH", "FLPTH", "FWIRH", "FWITH", "FGIRH", "FGITH", "FWCT", "FGOR", "FWCTH", "FGORH", "FGLR"}) S.push_back(f);
        for (const char* g : {"GOPR", "GOPT", "GWPR", "GWPT", "GGPR", "GGPT", "GLPR", "GLPT", "GVPR", "GVPT", "GWIR", "GWIT", "GGIR", "GGIT", "GOPRH", "GOPTH", "GWPRH", "GWPTH", "GWIRH", "GWITH", "GWCT", "GGOR"}) S.push_back(std::string(g) + "\n/");
        for (const char* w : {"WOPR", "WOPT", "WWPR", "WWPT", "WGPR", "WGPT", "WLPR", "WLPT", "WVPR", "WVPT", "WWIR", "WWIT", "WGIR", "WGIT", "WVIR", "WVIT",
                              "WOPRH", "WOPTH", "WWPRH", "WWPTH", "WGPRH", "WGPTH", "WLPRH", "WLPTH", "WWIRH", "WWITH", "WGIRH", "WGITH", "WWCT", "WGOR", "WWCTH", "WGORH", "WGLR", "WBHP", "WTHP"}) S.push_back(std::string(w) + "\n/");
        S.push_back("DATE");
        for (auto& u : m.udq_names) S.push_back(u[0] == 'F' ? u : u + "\n/");
        if (o.vector_target > 0) {
            // pad with block and connection vectors up to about the target
            int have = 33 + 22 * static_cast<int>(groups.size() + 1) + 35 * nw + 4;
            static const char* bk[] = {"BPR", "BSWAT", "BSGAS", "BOSAT", "BWSAT", "BGSAT", "BRS", "BRV", "BOKR", "BWKR", "BGKR", "BOVIS", "BWVIS", "BGVIS", "BODEN", "BWDEN", "BGDEN", "BVOIL", "BVWAT", "BVGAS", "BDENO", "BDENW", "BDENG", "BFLOWI", "BFLOWJ", "BFLOWK"};
            for (const char* b : bk) {
                if (have >= o.vector_target) break;
                std::string line = std::string(b) + "\n";
                for (int kk = 1; kk <= m.nz && have < o.vector_target; ++kk) for (int jj = 1; jj <= m.ny && have < o.vector_target; ++jj) for (int ii = 1; ii <= m.nx && have < o.vector_target; ++ii)
                    if (m.actnum[static_cast<size_t>((kk - 1) * m.nx * m.ny + (jj - 1) * m.nx + ii - 1)]) { line += " " + std::to_string(ii) + " " + std::to_string(jj) + " " + std::to_string(kk) + " /\n"; ++have; }
                line += "/"; S.push_back(line);
            }
        }
    }
};

} // namespace

Model generate_model(std::uint64_t seed, const GenOpts& o) { Gen g(seed, o); g.build(); return g.m; }

static bool rec_mentions(const std::vector<std::string>& r, const std::string& name) {
    for (auto& t : r) if (t == q(name) || t == name) return true;
    return false;
}

void apply_drops(Model& m, const Json& d) {
    if (d.is_null()) return;
    // drop trailing report steps
    if (d.has("keep_steps")) { size_t k = static_cast<size_t>(d.geti("keep_steps")); if (k >= 1 && k < m.steps.size()) m.steps.resize(k); }
    // drop actions by name
    if (d.has("actions")) for (size_t q2 = 0; q2 < d.at("actions").size(); ++q2) {
        const std::string n = d.at("actions")[q2].as_s();
        auto rm = [&](std::vector<ActionDef>& v) { v.erase(std::remove_if(v.begin(), v.end(), [&](const ActionDef& a) { return a.name == n; }), v.end()); };
        rm(m.actions0); for (auto& s : m.steps) rm(s.actions);
    }
    // drop wells by name (and every record that mentions them)
    if (d.has("wells")) for (size_t q2 = 0; q2 < d.at("wells").size(); ++q2) {
        const std::string n = d.at("wells")[q2].as_s();
        if (m.wells.size() <= 1) break;
        m.wells.erase(std::remove_if(m.wells.begin(), m.wells.end(), [&](const WellDef& w) { return w.name == n; }), m.wells.end());
        auto clean = [&](std::vector<Kw>& v) {
            for (auto& k : v) {
                if (!k.raw.empty()) { if (k.raw.find("'" + n + "'") != std::string::npos) { k.raw.clear(); k.recs.clear(); } continue; }
                if (k.name == "WLIST") { for (auto& r : k.recs) r.erase(std::remove(r.begin(), r.end(), q(n)), r.end()); continue; }
                if (k.name == "COMPSEGS" && !k.recs.empty() && rec_mentions(k.recs[0], n)) { k.recs.clear(); continue; }
                if (k.name == "WELSEGS" && !k.recs.empty() && rec_mentions(k.recs[0], n)) { k.recs.clear(); continue; }
                k.recs.erase(std::remove_if(k.recs.begin(), k.recs.end(), [&](const std::vector<std::string>& r) { return k.name != "UDQ" && rec_mentions(r, n); }), k.recs.end());
            }
            v.erase(std::remove_if(v.begin(), v.end(), [](const Kw& k) { return k.recs.empty() && k.name != "SKIPREST"; }), v.end());
        };
        clean(m.block0); for (auto& s : m.steps) clean(s.kws);
        auto clean_act = [&](std::vector<ActionDef>& v) { for (auto& a : v) clean(a.body); v.erase(std::remove_if(v.begin(), v.end(), [](const ActionDef& a) { return a.body.empty(); }), v.end()); };
        clean_act(m.actions0); for (auto& s : m.steps) clean_act(s.actions);
    }
    // drop individual keywords: [block, index]
    if (d.has("kws")) {
        std::vector<std::pair<int, int>> v;
        for (size_t q2 = 0; q2 < d.at("kws").size(); ++q2) v.push_back({static_cast<int>(d.at("kws")[q2][0].as_i()), static_cast<int>(d.at("kws")[q2][1].as_i())});
        std::sort(v.rbegin(), v.rend());
        for (auto& bi : v) {
            if (bi.first <= 0 || bi.first >= static_cast<int>(m.steps.size())) continue;     // block 0 holds the well definitions: never dropped keyword-wise
            auto& kws = m.steps[static_cast<size_t>(bi.first)].kws;
            if (bi.second >= 0 && bi.second < static_cast<int>(kws.size())) kws.erase(kws.begin() + bi.second);
        }
    }
    if (d.getb("no_udq")) {
        auto rm = [](std::vector<Kw>& v) { v.erase(std::remove_if(v.begin(), v.end(), [](const Kw& k) { return k.name == "UDQ"; }), v.end()); };
        rm(m.block0); for (auto& s : m.steps) rm(s.kws);
        m.summary.erase(std::remove_if(m.summary.begin(), m.summary.end(), [](const std::string& s) { return s.size() > 2 && s[1] == 'U' && s[2] == '_'; }), m.summary.end());
        m.udq_names.clear();
    }
}

static std::string action_text(const ActionDef& a, double time_unit_seconds) {
    // MIN_WAIT is given in deck time units (days; hours in LAB)
    char mw[40]; std::snprintf(mw, sizeof mw, "%.17g", a.min_wait / time_unit_seconds);
    std::string s = "ACTIONX\n  " + a.name + " " + std::to_string(a.max_run) + " " + mw + " /\n";
    for (auto& c : a.cond) { s += " "; for (auto& t : c.tokens()) { s += " "; s += t; } s += " /\n"; }
    s += "/\n";
    for (auto& k : a.body) s += k.text();
    s += "ENDACTIO\n";
    return s;
}

std::string deck_text(const Model& m, const DeckOpts& d) {
    std::ostringstream o;
    const int ncell = m.nx * m.ny * m.nz;
    o << "RUNSPEC\nTITLE\n  verif generated model\nDIMENS\n  " << m.nx << " " << m.ny << " " << m.nz << " /\nOIL\nWATER\nGAS\nDISGAS\n" << m.units << "\n";
    o << "START\n  " << m.sd << " '" << month_name(m.sm) << "' " << m.sy << " /\n";
    o << "EQLDIMS\n/\nTABDIMS\n/\nWELLDIMS\n  20 10 12 20 6* 4 /\nUDQDIMS\n  50 25 0 50 50 0 0 50 0 20 /\nACTDIMS\n  8 20 80 8 /\nWSEGDIMS\n  4 12 4 /\n";
    if (m.unifout) o << "UNIFOUT\n";
    if (m.fmtout) o << "FMTOUT\n";
    if (d.restart_step >= 0) { if (m.unifout) o << "UNIFIN\n"; if (m.fmtout) o << "FMTIN\n"; }
    o << "GRID\nINIT\nDX\n"; for (int k = 0; k < ncell; ++k) o << " " << num(m.dx[static_cast<size_t>(k)]); o << " /\nDY\n"; for (int k = 0; k < ncell; ++k) o << " " << num(m.dy[static_cast<size_t>(k)]);
    o << " /\nDZ\n"; for (int k = 0; k < ncell; ++k) o << " " << num(m.dz[static_cast<size_t>(k)]);
    o << " /\nTOPS\n " << m.nx * m.ny << "*" << num(m.tops) << " /\nPORO\n " << ncell << "*0.25 /\nPERMX\n " << ncell << "*100 /\nPERMY\n " << ncell << "*100 /\nPERMZ\n " << ncell << "*10 /\nACTNUM\n";
    for (int k = 0; k < ncell; ++k) o << " " << m.actnum[static_cast<size_t>(k)];
    o << " /\nPROPS\nPVTW\n 270 1.03 4.6E-5 0.34 0 /\nROCK\n 270 4.0E-5 /\nDENSITY\n 860 1030 0.85 /\n"
      << "SWOF\n 0.2 0 0.9 0\n 0.5 0.2 0.4 0\n 1.0 1.0 0 0 /\nSGOF\n 0 0 0.9 0\n 0.4 0.3 0.3 0\n 0.8 1.0 0 0 /\n"
      << "PVDG\n 10 0.1 0.01\n 200 0.006 0.02\n 500 0.003 0.03 /\nPVTO\n 10 20 1.1 1.2 /\n 100 200 1.3 1.0\n 300 1.25 1.1 /\n/\n";
    o << "SOLUTION\n";
    if (d.restart_step >= 0) o << "RESTART\n  '" << d.restart_base << "' " << d.restart_step << " /\n";
    else o << "EQUIL\n " << num(m.tops + 10) << " 250 " << num(m.tops + 1000) << " 0 " << num(m.tops - 100) << " 0 1 1 0 /\nRSVD\n " << num(m.tops) << " 100\n " << num(m.tops + 1000) << " 100 /\n";
    o << "SUMMARY\n";
    for (auto& s : m.summary) o << s << "\n";
    o << "SCHEDULE\n";
    if (d.restart_step >= 0 && d.skiprest) o << "SKIPREST\n";
    if (m.rptonly) o << "RPTONLY\n";
    if (m.sumthin > 0) o << "SUMTHIN\n " << num(m.sumthin) << " /\n";
    auto emit_block = [&](int k, const std::vector<Kw>& kws, const std::vector<ActionDef>& acts) {
        for (auto& kw : kws) o << kw.text();
        if (!d.strip_actions) for (auto& a : acts) o << action_text(a, m.units == "LAB" ? 3600.0 : 86400.0);
        auto it = d.append_to_block.find(k);
        if (it != d.append_to_block.end()) for (auto& kw : it->second) o << kw.text();
    };
    const int nsteps = d.truncate_after >= 0 ? std::min(d.truncate_after, m.nsteps()) : m.nsteps();
    emit_block(0, m.block0, m.actions0);
    const double tfac = m.units == "LAB" ? 24.0 : 1.0;
    for (int s = 0; s < nsteps; ++s) {
        const StepDef* st = &m.steps[static_cast<size_t>(s)];
        const bool other = d.other_tail && d.tail_from >= 0 && s >= d.tail_from && static_cast<size_t>(s) < d.other_tail->size();
        if (other) st = &(*d.other_tail)[static_cast<size_t>(s)];
        if (s > 0) emit_block(s, st->kws, st->actions);
        if (st->by_date) {
            o << "DATES\n  " << st->d << " '" << month_name(st->m) << "' " << st->y;
            if (st->hh || st->mm || st->ss) { char b[16]; std::snprintf(b, sizeof b, " %02d:%02d:%02d", st->hh, st->mm, st->ss); o << b; }
            o << " /\n/\n";
        } else o << "TSTEP\n  " << num(st->days * tfac) << " /\n";
    }
    // a deck truncated after report step k keeps block k, i.e. the keywords entered at the end of step k
    if (d.truncate_after >= 0 && nsteps < m.nsteps()) { const StepDef& st = m.steps[static_cast<size_t>(nsteps)]; for (auto& kw : st.kws) o << kw.text(); if (!d.strip_actions) for (auto& a : st.actions) o << action_text(a, m.units == "LAB" ? 3600.0 : 86400.0); }
    // keywords appended to the last block (actions applied at the final report step)
    { auto it = d.append_to_block.find(nsteps); if (it != d.append_to_block.end()) for (auto& kw : it->second) o << kw.text(); }
    o << "END\n";
    return o.str();
}

} // namespace srun

namespace srun {
void kw_histogram(const Model& m, std::map<std::string, long>& out) {
    for (auto& k : m.block0) ++out["kw." + k.name];
    for (auto& a : m.actions0) for (auto& k : a.body) ++out["kw.action." + k.name];
    for (auto& s : m.steps) { for (auto& k : s.kws) ++out["kw.late." + k.name]; for (auto& a : s.actions) for (auto& k : a.body) ++out["kw.action." + k.name]; }
}
} // namespace srun
