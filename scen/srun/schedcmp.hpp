// Serialisation-independent image of one ScheduleState built from public queries only.
// Used as the C05-R3 comparator (float precision on values that travel through REAL arrays),
// as the query-based fingerprint of C03/C04 (exact) and for the C11 query sweep.
#pragma once
#include <opm/input/eclipse/Schedule/Schedule.hpp>
#include <opm/input/eclipse/Schedule/SummaryState.hpp>
#include <string>
#include <vector>

namespace srun {

struct Item {
    std::string key;       // e.g. "well.P1.conn.12.CF"
    bool numeric = false;
    double v = 0;
    std::string s;
    bool float_prec = false;   // value may legitimately have made a single-precision round trip
};

struct DumpOpts {
    bool events = true;        // include events()/wellgroup_events()
    bool actions = true;
    bool udq = true;
    bool end_time = false;
    bool dynamic = true;       // status etc.
    bool action_start_time = true;
    bool stop_without_crossflow_is_shut = false;   // C05 only
    bool wpimult = true;       // Connection::wpimult() (not stored in restart files: C05 turns it off)
};

std::vector<Item> dump_state(const Opm::Schedule& sched, std::size_t step, const Opm::SummaryState& st, const DumpOpts& o = {});

// first difference between two dumps ("" if equivalent); `cls` receives the key with names stripped (for violation classes)
std::string diff_dumps(const std::vector<Item>& a, const std::vector<Item>& b, bool allow_float, std::string& cls);
std::uint64_t hash_dump(const std::vector<Item>& a);

} // namespace srun
