#include "driver.hpp"

#include <opm/common/utility/TimeService.hpp>
#include <opm/input/eclipse/EclipseState/Grid/RegionSetMatcher.hpp>
#include <opm/input/eclipse/EclipseState/IOConfig/IOConfig.hpp>
#include <opm/input/eclipse/EclipseState/InitConfig/InitConfig.hpp>
#include <opm/input/eclipse/EclipseState/Runspec.hpp>
#include <opm/input/eclipse/Parser/Parser.hpp>
#include <opm/input/eclipse/Parser/ParseContext.hpp>
#include <opm/input/eclipse/Parser/ErrorGuard.hpp>
#include <opm/input/eclipse/Schedule/Action/ActionContext.hpp>
#include <opm/input/eclipse/Schedule/Action/Actions.hpp>
#include <opm/input/eclipse/Schedule/Action/SimulatorUpdate.hpp>
#include <opm/input/eclipse/Schedule/MSW/WellSegments.hpp>
#include <opm/input/eclipse/Schedule/ScheduleState.hpp>
#include <opm/input/eclipse/Schedule/UDQ/UDQConfig.hpp>
#include <opm/input/eclipse/Schedule/UDQ/UDQParams.hpp>
#include <opm/input/eclipse/Schedule/Well/Connection.hpp>
#include <opm/input/eclipse/Schedule/Well/Well.hpp>
#include <opm/input/eclipse/Schedule/Well/WellConnections.hpp>
#include <opm/input/eclipse/Schedule/Well/WellMatcher.hpp>
#include <opm/input/eclipse/Schedule/MSW/SegmentMatcher.hpp>
#include <opm/input/eclipse/Units/UnitSystem.hpp>
#include <opm/io/eclipse/ERst.hpp>
#include <opm/io/eclipse/RestartFileView.hpp>
#include <opm/output/eclipse/Summary.hpp>
#include <opm/output/eclipse/Inplace.hpp>

#include <cmath>
#include <stdexcept>
#include <sys/stat.h>
#include <unistd.h>

namespace srun {

std::vector<std::string> shipped_decks(std::size_t min_time_keywords) {
    std::vector<std::string> out;
    const bool was = true; (void)was;
    sim::fs::passthrough(true);
    const std::vector<std::string> dirs = {"/repo/tests", "/repo/tests/msim", "/repo/tests/parser/data/integration_tests/IOConfig", "/repo/tests/parser/data/integration_tests/SCHEDULE"};
    for (auto& d : dirs) { std::vector<std::string> names; try { names = sim::fs::listdir(d); } catch (...) { continue; }
        for (auto& n : names) { if (n.size() < 6 || n.substr(n.size() - 5) != ".DATA") continue; std::string t; try { t = sim::fs::slurp(d + "/" + n); } catch (...) { continue; }
            if (t.size() > 400000 || t.find("\nSCHEDULE") == std::string::npos || t.find("PYACTION") != std::string::npos || t.find("\nRESTART") != std::string::npos) continue;
            std::size_t cnt = 0; for (const char* kw : {"\nDATES", "\nTSTEP"}) for (std::size_t q = t.find(kw); q != std::string::npos; q = t.find(kw, q + 1)) ++cnt;
            if (cnt >= min_time_keywords) out.push_back(d + "/" + n); } }
    sim::fs::passthrough(false);
    return out;
}

const std::vector<ExtraDef>& extra_catalogue() {
    static const std::vector<ExtraDef> c = {{"VEXTRA", Opm::UnitSystem::measure::pressure}, {"LEXTRA", Opm::UnitSystem::measure::length}, {"IEXTRA", Opm::UnitSystem::measure::identity},
                                             {"TEXTRA", Opm::UnitSystem::measure::time}, {"QEXTRA", Opm::UnitSystem::measure::liquid_surface_rate}};
    return c;
}


using namespace Opm;

static std::uint64_t name_hash(const std::string& s) { return sim::digest(s.data(), s.size()); }
static double unit01(std::uint64_t h) { return static_cast<double>(sim::mix64(h) >> 11) * (1.0 / 9007199254740992.0); }

std::unique_ptr<World> World::create(const std::string& deck_text, const RunCfg& cfg, int restart_step) {
    auto w = std::make_unique<World>();
    w->cfg = cfg;
    w->deck_string = deck_text;
    w->python = std::make_shared<Python>();
    Parser parser;
    w->deck = parser.parseString(deck_text);
    w->es = std::make_unique<EclipseState>(w->deck);
    w->es->getIOConfig().setBaseName(cfg.base);
    w->es->getIOConfig().setOutputDir(".");
    w->es->getIOConfig().setEclCompatibleRST(cfg.ecl_compat);
    w->restart_step = restart_step;
    if (restart_step >= 0) {
        const auto& init = w->es->getInitConfig();
        const auto fname = w->es->getIOConfig().getRestartFileName(init.getRestartRootName(), init.getRestartStep(), false);
        auto rstfile = std::make_shared<EclIO::ERst>(fname);
        auto view = std::make_shared<EclIO::RestartFileView>(std::move(rstfile), init.getRestartStep());
        w->rst = std::make_unique<RestartIO::RstState>(RestartIO::RstState::load(std::move(view), w->es->runspec(), parser));
        w->sched = std::make_unique<Schedule>(w->deck, *w->es, w->python, false, false, true, std::nullopt, w->rst.get());
    } else {
        w->sched = std::make_unique<Schedule>(w->deck, *w->es, w->python);
    }
    w->sumcfg = std::make_unique<SummaryConfig>(w->deck, *w->sched, w->es->fieldProps(), w->es->aquifer());
    w->io = std::make_unique<EclipseIO>(*w->es, w->es->getInputGrid(), *w->sched, *w->sumcfg, "", cfg.esmry);
    w->st = std::make_unique<SummaryState>(TimeService::from_time_t(w->sched->getStartTime()), w->es->runspec().udqParams().undefinedValue());
    w->udq = std::make_unique<UDQState>(w->sched->getUDQConfig(0).params().undefinedValue());
    if (restart_step >= 0) {
        std::vector<RestartKey> keys = {{"PRESSURE", UnitSystem::measure::pressure}, {"SWAT", UnitSystem::measure::identity},
                                        {"SGAS", UnitSystem::measure::identity}, {"RS", UnitSystem::measure::gas_oil_ratio}};
        std::vector<RestartKey> extra;
        for (size_t k = 0; k < extra_catalogue().size(); ++k) if (cfg.extra_mask & (1u << k)) extra.push_back({extra_catalogue()[k].key, extra_catalogue()[k].dim, false});
        w->restored = w->io->loadRestart(w->astate, *w->st, keys, extra);
        w->astate.load_rst((*w->sched)[static_cast<size_t>(restart_step)].actions(), *w->rst);
        w->udq->load_rst(*w->rst);
    }
    return w;
}

void World::write_initial() { io->writeInitial(); }

// ---------------------------------------------------------------------------------- physics stub
// A pure function of (physics seed, well name, time, schedule state of the well at report_step-1, summary state for UDA).
data::Wells physics(const World& w, int report_step, double t) {
    data::Wells xw;
    const auto& sched = *w.sched;
    const size_t sim_step = static_cast<size_t>(report_step - 1);
    const double day = 86400.0;
    for (const auto& wname : sched.wellNames(sim_step)) {
        const auto& well = sched.getWell(wname, sim_step);
        data::Well dw;
        const std::uint64_t h = sim::mix64(name_hash(wname) ^ sim::mix64(w.cfg.physics_seed));
        const double mod = 1.0 + 0.3 * std::sin(t / day / 17.0 + 6.28 * unit01(h + 1));
        // base rates in m3/s (liquids ~ 100-1500 m3/day, gas ~ 1e4-1e5 m3/day)
        double bo = (100 + 900 * unit01(h + 2)) / day * mod, bw = (20 + 600 * unit01(h + 3)) / day * (2.0 - mod), bg = (1e4 + 9e4 * unit01(h + 4)) / day * mod;
        const bool open = well.getStatus() == Well::Status::OPEN;
        dw.dynamicStatus = well.getStatus();
        dw.bhp = (80 + 200 * unit01(h + 5)) * 1e5 + 1e4 * std::sin(t / day / 5.0);
        dw.thp = (10 + 40 * unit01(h + 6)) * 1e5;
        dw.temperature = 300 + 50 * unit01(h + 7);
        double ro = 0, rw = 0, rg = 0;
        if (well.isProducer()) {
            const auto ctrl = well.productionControls(*w.st);
            auto cm = ctrl.cmode;
            double scale = 1.0;
            if (well.predictionMode()) {
                if (cm == Well::ProducerCMode::ORAT && ctrl.oil_rate > 0) scale = ctrl.oil_rate / bo;
                else if (cm == Well::ProducerCMode::WRAT && ctrl.water_rate > 0) scale = ctrl.water_rate / bw;
                else if (cm == Well::ProducerCMode::GRAT && ctrl.gas_rate > 0) scale = ctrl.gas_rate / bg;
                else if (cm == Well::ProducerCMode::LRAT && ctrl.liquid_rate > 0) scale = ctrl.liquid_rate / (bo + bw);
                ro = bo * scale; rw = bw * scale; rg = bg * scale;
            } else {
                const double wob = 1.0 + 0.05 * std::sin(t / day / 3.0 + unit01(h + 8));
                ro = ctrl.oil_rate * wob; rw = ctrl.water_rate * wob; rg = ctrl.gas_rate * wob;
            }
            if (cm == Well::ProducerCMode::GRUP || cm == Well::ProducerCMode::CMODE_UNDEFINED || cm == Well::ProducerCMode::NONE) cm = Well::ProducerCMode::BHP;
            dw.current_control.isProducer = true; dw.current_control.prod = cm;
            ro = -ro; rw = -rw; rg = -rg;
        } else {
            const auto ctrl = well.injectionControls(*w.st);
            auto cm = ctrl.cmode;
            double rate = ctrl.surface_rate > 0 ? ctrl.surface_rate : (ctrl.injector_type == InjectorType::GAS ? bg : bw);
            if (!well.predictionMode()) rate *= 1.0 + 0.05 * std::sin(t / day / 3.0);
            if (ctrl.injector_type == InjectorType::GAS) rg = rate; else if (ctrl.injector_type == InjectorType::OIL) ro = rate; else rw = rate;
            if (cm == Well::InjectorCMode::GRUP || cm == Well::InjectorCMode::CMODE_UNDEFINED) cm = Well::InjectorCMode::BHP;
            dw.current_control.isProducer = false; dw.current_control.inj = cm;
        }
        if (!open && !(w.cfg.shut_report_rates && well.getStatus() == Well::Status::SHUT)) { ro = rw = rg = 0; }
        dw.rates.set(data::Rates::opt::oil, ro).set(data::Rates::opt::wat, rw).set(data::Rates::opt::gas, rg);
        dw.rates.set(data::Rates::opt::reservoir_oil, 1.2 * ro).set(data::Rates::opt::reservoir_water, 1.01 * rw).set(data::Rates::opt::reservoir_gas, 0.005 * rg);
        dw.rates.set(data::Rates::opt::dissolved_gas, 0.3 * rg).set(data::Rates::opt::vaporized_oil, 0.0);
        // connections: the writer derives open/shut from flowing connections, so per-connection flows are supplied
        const auto& conns = well.getConnections();
        size_t nopen = 0;
        for (const auto& c : conns) if (c.state() == Connection::State::OPEN) ++nopen;
        size_t ci = 0, open_seen = 0;
        for (const auto& c : conns) {
            data::Connection dc;
            dc.index = c.global_index();
            const bool copen = (open || w.cfg.shut_report_rates) && c.state() == Connection::State::OPEN && nopen > 0;
            const double share = copen ? 1.0 / static_cast<double>(nopen) : 0.0;
            dc.rates.set(data::Rates::opt::oil, ro * share).set(data::Rates::opt::wat, rw * share).set(data::Rates::opt::gas, rg * share);
            if (well.getStatus() == Well::Status::STOP && c.state() == Connection::State::OPEN && nopen >= 2) {
                // a stopped well has no surface flow but may cross-flow between its connections: +q / -q in pairs
                const size_t oi = open_seen++;
                if (oi + 1 < nopen || nopen % 2 == 0) { const double qx = ((oi % 2) ? -1.0 : 1.0) * bw * 0.01; dc.rates.set(data::Rates::opt::wat, qx); }
            }
            dc.pressure = dw.bhp + 1e4 * static_cast<double>(ci + 1);
            dc.reservoir_rate = (1.2 * ro + 1.01 * rw + 0.005 * rg) * share;
            dc.cell_pressure = dc.pressure + 2e5;
            dc.cell_saturation_water = 0.25; dc.cell_saturation_gas = 0.1;
            dc.effective_Kh = c.Kh(); dc.trans_factor = c.CF();
            dw.connections.push_back(dc);
            ++ci;
        }
        if (well.isMultiSegment()) {
            const auto& segs = well.getSegments();
            for (size_t s = 0; s < segs.size(); ++s) {
                data::Segment ds;
                ds.segNumber = static_cast<size_t>(segs[s].segmentNumber());
                const double f = 1.0 / static_cast<double>(s + 1);
                ds.rates.set(data::Rates::opt::oil, ro * f).set(data::Rates::opt::wat, rw * f).set(data::Rates::opt::gas, rg * f);
                ds.pressures[data::SegmentPressures::Value::Pressure] = dw.bhp + 5e3 * static_cast<double>(s);
                dw.segments[ds.segNumber] = ds;
            }
        }
        xw[wname] = std::move(dw);
    }
    return xw;
}

data::Solution solution(const World& w, int report_step, double t) {
    const size_t n = w.es->getInputGrid().getNumActive();
    data::Solution sol;
    std::vector<double> p(n), sw(n), sg(n), rs(n);
    for (size_t c = 0; c < n; ++c) {
        const double u = unit01(sim::mix64(w.cfg.physics_seed) + c * 7 + static_cast<std::uint64_t>(report_step));
        p[c] = 2.0e7 + 1e6 * u + t * 1e-3; sw[c] = 0.2 + 0.3 * u; sg[c] = 0.05 + 0.1 * u; rs[c] = 100 + 50 * u;
    }
    sol.insert("PRESSURE", UnitSystem::measure::pressure, p, data::TargetType::RESTART_SOLUTION);
    sol.insert("SWAT", UnitSystem::measure::identity, sw, data::TargetType::RESTART_SOLUTION);
    sol.insert("SGAS", UnitSystem::measure::identity, sg, data::TargetType::RESTART_SOLUTION);
    sol.insert("RS", UnitSystem::measure::gas_oil_ratio, rs, data::TargetType::RESTART_SOLUTION);
    return sol;
}

void World::post_step(int r, Observer* obs) {
    if (obs) obs->before_actions(*this, r);
    const auto& actions = (*sched)[static_cast<size_t>(r)].actions.get();
    if (actions.empty()) return;
    const std::time_t now = sched->simTime(static_cast<size_t>(r));
    const auto context = Action::Context{*st, (*sched)[static_cast<size_t>(r)].wlist_manager.get()};
    if (getenv("VERIF_DEBUG_ACT")) for (const auto& a : actions) fprintf(stderr, "DEBUG_ACT base=%s step=%d now=%lld action=%s start=%lld ready=%d runs=%d\n", cfg.base.c_str(), r, static_cast<long long>(now), a.name().c_str(), static_cast<long long>(a.start_time()), a.ready(astate, now), static_cast<int>(astate.run_count(a)));
    for (const auto* action : actions.pending(astate, now)) {
        const auto result = action->eval(context);
        if (obs) obs->on_action_eval(*this, r, *action, result);
        if (result.conditionSatisfied()) {
            Firing f{r, action->name(), {}, static_cast<double>(now)};
            f.wells = result.matches().wells().asVector();
            for (const auto& wn : sched->wellNames(static_cast<size_t>(r))) { const auto& wl = sched->getWell(wn, static_cast<size_t>(r)); if (wl.getStatus() == Well::Status::SHUT && wl.getConnections().allConnectionsShut()) f.shut_closed.push_back(wn); }
            sim::fs::note("action_fire", action->name() + "@" + std::to_string(r));
            sched->applyAction(static_cast<size_t>(r), *action, result.matches(), std::unordered_map<std::string, double>{});
            if (cfg.add_run) astate.add_run(*action, now, result);
            firings.push_back(f);
            if (obs) obs->after_apply(*this, r, f);
        }
    }
}

bool World::run(int first, int last, Observer* obs) {
    auto region_factory = [this]() { return std::make_unique<RegionSetMatcher>(this->es->fipRegionStatistics()); };
    size_t wall_k = 0;
    for (int r = first; r <= last && r <= last_step(); ++r) {
        const double t0 = sched->seconds(static_cast<size_t>(r - 1)), t1 = sched->seconds(static_cast<size_t>(r));
        std::vector<double> fr = {1.0};
        if (static_cast<size_t>(r - 1) < cfg.ministeps.size() && !cfg.ministeps[static_cast<size_t>(r - 1)].empty()) fr = cfg.ministeps[static_cast<size_t>(r - 1)];
        double prev = t0;
        for (size_t q = 0; q < fr.size(); ++q) {
            double t = (q + 1 == fr.size()) ? t1 : t0 + fr[q] * (t1 - t0);
            if (t <= prev) continue;
            if (t > t1) t = t1;
            const double dt = t - prev;
            if (!cfg.wall_advance.empty()) sim::clk::advance_wall(cfg.wall_advance[wall_k++ % cfg.wall_advance.size()]);
            data::Wells xw = physics(*this, r, t);
            data::Solution sol = solution(*this, r, t);
            data::GroupAndNetworkValues xg;
            io->summary().eval(*st, r, t, xw, {}, xg, {}, {}, {});
            sched->getUDQConfig(static_cast<size_t>(r - 1)).eval(static_cast<size_t>(r), sched->wellMatcher(static_cast<size_t>(r)),
                                                                  sched->segmentMatcherFactory(static_cast<size_t>(r)), region_factory, *st, *udq);
            if (obs) obs->after_eval(*this, r, t, dt, xw);
            const bool substep = t < t1;
            RestartValue rv(sol, xw, xg, {});
            for (size_t k = 0; k < extra_catalogue().size(); ++k) if (cfg.extra_mask & (1u << k))
                rv.addExtra(extra_catalogue()[k].key, extra_catalogue()[k].dim, std::vector<double>{1.0e5 * r + static_cast<double>(k), 2.5e5 / static_cast<double>(k + 1), t});
            sim::fs::note("writeTimeStep", static_cast<std::uint64_t>(r) * 1000 + q);
            io->writeTimeStep(astate, wtest, *st, *udq, r, substep, t, rv, cfg.write_double);
            if (sim::fs::dead()) return false;
            if (obs) obs->after_write(*this, r, substep, t, rv);
            sim_seconds += dt; ++ministeps_done;
            prev = t;
        }
        if (cfg.wtest_activity) {
            // what a simulator does with WTEST: wells it closes are registered with the reason, and closed wells are offered for
            // testing when their interval has elapsed; a tested well re-opens or stays closed
            const auto& wc = (*sched)[static_cast<size_t>(r)].wtest_config();
            for (const auto& wn : sched->wellNames(static_cast<size_t>(r))) {
                if (!wc.has(wn)) continue;
                std::uint64_t h = sim::mix64(cfg.physics_seed) + static_cast<std::uint64_t>(r) * 131; for (char ch : wn) h = h * 31 + static_cast<unsigned char>(ch);
                if (!wtest.well_is_closed(wn) && unit01(h) < 0.35) wtest.close_well(wn, wc.has(wn, WTest::Reason::ECONOMIC) ? WTest::Reason::ECONOMIC : WTest::Reason::PHYSICAL, t1);
            }
            for (const auto& wn : wtest.test_wells(wc, t1)) {
                std::uint64_t h = sim::mix64(cfg.physics_seed ^ 0x77) + static_cast<std::uint64_t>(r) * 17; for (char ch : wn) h = h * 31 + static_cast<unsigned char>(ch);
                if (unit01(h) < 0.4) wtest.open_well(wn);
            }
        }
        post_step(r, obs);
        if (obs) obs->end_of_step(*this, r);
        if (sim::fs::dead()) return false;
    }
    return true;
}

void enter_dir(const std::string& sub) {
    const std::string path = sim::fs::root() + sub;
    sim::fs::passthrough(true);
    sim::fs::mkdirs(path);
    if (::chdir(path.c_str())) { sim::fs::passthrough(false); throw std::runtime_error("enter_dir: cannot chdir to " + path); }
    sim::fs::passthrough(false);
}

void copy_files(const std::string& from_sub, const std::string& to_sub) {
    const std::string from = sim::fs::root() + from_sub, to = sim::fs::root() + to_sub;
    sim::fs::passthrough(true);
    sim::fs::mkdirs(to);
    for (const auto& n : sim::fs::listdir(from)) {
        struct stat sb;
        const std::string p = from + "/" + n;
        if (!::stat(p.c_str(), &sb) && S_ISREG(sb.st_mode)) sim::fs::spit(to + "/" + n, sim::fs::slurp(p));
    }
    sim::fs::passthrough(false);
}

std::string describe_real_vs_stub() {
    return "real: Parser, Deck, EclipseState, Schedule (+keyword handlers, applyAction), SummaryConfig, UDQConfig/UDQState, Action::{Actions,ActionX,State}, "
           "SummaryState, out::Summary, EclipseIO, RestartIO::save/load, rst::RstState, ESmry/ExtESmry/ERst, Serializer<MemPacker>, libstdc++ streams over interposed libc. "
           "stub: the time loop (modelled on msim::run/run_step/post_step, plus Action::State::add_run after a firing), reservoir physics "
           "(pure function of seed, well, time, schedule state), simulated wall clock, simulated file-layer outcomes";
}

} // namespace srun
