// C11 — serialization round trip is observably identical (DESIGN 5/C11).
// In production the packed bytes are a transport (rank 0 -> other ranks) and a checkpoint.  Both are simulated as a
// fault of the run: "the process is replaced by a replica that only has the packed bytes".  At plan-chosen points the
// driver packs objects with Serializer<MemPacker>, unpacks them into freshly constructed objects and continues the run
// on the replicas; the twin run with the same plan minus the migrations is the reference.
#include "../simcore/runner.hpp"
#include "srun/driver.hpp"
#include "srun/schedcmp.hpp"
#include "srun/packing.hpp"

#include <opm/input/eclipse/Schedule/ScheduleState.hpp>
#include <opm/input/eclipse/Deck/Deck.hpp>
#include <opm/input/eclipse/Parser/Parser.hpp>
#include <opm/common/utility/TimeService.hpp>

#include <sstream>

using namespace sim;
using namespace srun;

namespace {

using Json = sim::Json;

struct Migrator : Observer {
    RunResult& r; const Json& ops; bool active; bool failed = false;
    long migrations = 0; std::map<std::string, long> probes; Hash64 oh;
    long ministep = 0;
    Migrator(RunResult& rr, const Json& o, bool act) : r(rr), ops(o), active(act) {}
    void fail(const std::string& cls, const std::string& d) { if (!failed) r.fail(cls, d); failed = true; }

    void check_trip(const std::string& what, const Trip& t, const std::string& where) {
        oh.u64(t.packed);
        if (t.consumed != t.packed) fail("C11." + what + ".consumed", where + ": unpacking " + what + " consumed " + std::to_string(t.consumed) + " of " + std::to_string(t.packed) + " packed bytes");
        else if (!t.equal) fail("C11." + what + ".not_equal", where + ": the " + what + " replica does not compare equal to the original");
        else if (t.repacked != t.packed_now) fail("C11." + what + ".repack_length", where + ": packing the " + what + " replica gives " + std::to_string(t.repacked) + " bytes, the original packs to " + std::to_string(t.packed_now) + " at the same moment (" + std::to_string(t.packed) + " when it was shipped)");
        else if (!t.repack_equal_after_unpack) fail("C11." + what + ".second_generation", where + ": a second pack/unpack generation of " + what + " is not equal to the first replica");
    }

    // migrate the objects selected by `mask` (bit 0 Schedule, 1 SummaryState, 2 UDQState, 3 Action::State, 4 WellTestState, 5 EclipseState*, 6 SummaryConfig*)
    // (*) round trip checked, the run does not continue on the replica: EclipseIO holds its own copies / the grid is distributed separately
    void migrate(World& w, int mask, const std::string& where) {
        if (!active || failed) return;
        ++migrations;
        if (mask & 1) {
            std::unique_ptr<Opm::Schedule> rep;
            // query sweep before: images of every state
            std::vector<std::uint64_t> before; for (size_t k = 0; k < w.sched->size(); ++k) before.push_back(hash_dump(dump_state(*w.sched, k, *w.st, DumpOpts{true, true, true, false, true, true, false})));
            Trip t = trip_schedule(*w.sched, rep, w.python, w.sched.get());
            check_trip("Schedule", t, where);
            if (!failed) for (size_t k = 0; k < rep->size(); ++k) if (hash_dump(dump_state(*rep, k, *w.st, DumpOpts{true, true, true, false, true, true, false})) != before[k]) { fail("C11.Schedule.query", where + ": the Schedule replica answers public queries differently at state " + std::to_string(k)); break; }
            if (!failed) ++probes["probe.continued_on_schedule_replica"];     // *w.sched now is the unpacked object
        }
        if (mask & 2) { std::unique_ptr<Opm::SummaryState> rep; check_trip("SummaryState", trip_summary_state(*w.st, rep), where); if (!failed) *w.st = *rep; }
        if (mask & 4) { std::unique_ptr<Opm::UDQState> rep; check_trip("UDQState", trip_udq_state(*w.udq, rep), where); if (!failed) *w.udq = *rep; }
        if (mask & 8) { Opm::Action::State rep; check_trip("ActionState", trip_action_state(w.astate, rep), where); if (!failed) w.astate = rep; }
        if (mask & 16) { Opm::WellTestState rep; check_trip("WellTestState", trip_wtest_state(w.wtest, rep), where); if (!failed) w.wtest = rep; }
        if (mask & 32) { std::unique_ptr<Opm::EclipseState> rep; check_trip("EclipseState", trip_eclipse_state(*w.es, rep), where); }
        if (mask & 64) { std::unique_ptr<Opm::SummaryConfig> rep; check_trip("SummaryConfig", trip_summary_config(*w.sumcfg, rep), where); }
    }

    int mask_at(const std::string& when, int step, long ms) const {
        int m = 0;
        for (size_t k = 0; k < ops.size(); ++k) { const Json& o = ops[k];
            if (o.gets("when") != when) continue;
            if (when == "ministep" ? o.geti("n") == ms : o.geti("n") == step) m |= static_cast<int>(o.geti("mask")); }
        return m;
    }
    void after_write(World& w, int step, bool, double, const Opm::RestartValue& rv) override {
        ++ministep;
        if (int m = mask_at("ministep", step, ministep)) migrate(w, m, "after ministep " + std::to_string(ministep) + " (report step " + std::to_string(step) + ")");
        if (active && !failed && (mask_at("ministep", step, ministep) & 128)) { std::unique_ptr<Opm::RestartValue> rep; check_trip("RestartValue", trip_restart_value(rv, rep), "restart value of ministep " + std::to_string(ministep)); }
    }
    // the driver iterates over pointers into sched[r].actions while it applies actions: the Schedule itself is only replaced once that
    // loop is over (end_of_step, still before the next time step); the dynamic objects can be replaced right after an application
    int pending_sched = 0;
    void after_apply(World& w, int step, const Firing&) override { if (int m = mask_at("after_apply", step, 0)) { pending_sched |= (m & 1); migrate(w, m & ~1, "right after an action was applied at report step " + std::to_string(step)); ++probes["probe.migrated_between_firing_and_next_step"]; } }
    void end_of_step(World& w, int step) override { int m = mask_at("end_of_step", step, 0) | pending_sched; pending_sched = 0; if (m) migrate(w, m, "at the end of report step " + std::to_string(step)); }
};

struct C11 : Scenario {
    std::string id() const override { return "C11"; }
    Json describe() override { Json j = Json::object(); j["scenario"] = "S-RUN with migrate ops"; j["real_vs_stub"] = describe_real_vs_stub(); return j; }

    std::vector<std::string> shipped;
    C11() { shipped = shipped_decks(0); }

    // objects built from a shipped deck (keyword families far beyond the generator's): EclipseState, Schedule, SummaryConfig
    RunResult execute_shipped(const Json& plan) {
        RunResult r;
        const std::string root = getenv("VERIF_RUNDIR") ? getenv("VERIF_RUNDIR") : "/dev/shm/verif.run";
        fs::begin_run(root);
        const std::string path = shipped.empty() ? std::string() : shipped[static_cast<size_t>(plan.geti("deck_pick")) % shipped.size()];
        const std::string name = path.substr(path.rfind('/') + 1);
        Hash64 sh, oh; sh.str("shipped"); sh.str(path);
        Json sample = Json::object(); sample["kind"] = "shipped"; sample["deck"] = name;
        Json none = Json::array(); Migrator mg(r, none, true);
        fs::passthrough(true);
        try {
            Opm::Parser parser; auto python = std::make_shared<Opm::Python>();
            std::unique_ptr<Opm::Deck> deck; std::unique_ptr<Opm::EclipseState> es; std::unique_ptr<Opm::Schedule> sched; std::unique_ptr<Opm::SummaryConfig> sc;
            try { deck = std::make_unique<Opm::Deck>(parser.parseFile(path)); es = std::make_unique<Opm::EclipseState>(*deck); sched = std::make_unique<Opm::Schedule>(*deck, *es, python); }
            catch (const std::exception&) { ++r.counters["shipped.unusable_deck"]; sched.reset(); }
            if (sched) {
                try { sc = std::make_unique<Opm::SummaryConfig>(*deck, *sched, es->fieldProps(), es->aquifer()); } catch (const std::exception&) { ++r.counters["shipped.no_summary_config"]; }
                Opm::SummaryState st(Opm::TimeService::from_time_t(sched->getStartTime()), es->runspec().udqParams().undefinedValue());
                std::vector<std::uint64_t> before; for (size_t k = 0; k < sched->size(); ++k) before.push_back(hash_dump(dump_state(*sched, k, st, DumpOpts{true, true, true, false, true, true, false})));
                { std::unique_ptr<Opm::Schedule> rep; Trip t = trip_schedule(*sched, rep, python, nullptr); mg.check_trip("Schedule", t, name);
                  if (!mg.failed && rep) for (size_t k = 0; k < rep->size(); ++k) if (hash_dump(dump_state(*rep, k, st, DumpOpts{true, true, true, false, true, true, false})) != before[k]) { mg.fail("C11.Schedule.query", name + ": the Schedule replica answers public queries differently at state " + std::to_string(k)); break; } }
                if (!mg.failed) { std::unique_ptr<Opm::EclipseState> rep; mg.check_trip("EclipseState", trip_eclipse_state(*es, rep), name); }
                if (!mg.failed && sc) { std::unique_ptr<Opm::SummaryConfig> rep; mg.check_trip("SummaryConfig", trip_summary_config(*sc, rep), name); }
                r.nontrivial = true; ++r.counters["shipped.decks_round_tripped"]; r.counters["shipped.states"] += static_cast<long>(sched->size());
                for (auto q : before) oh.u64(q);
            }
        } catch (const std::exception& e) { if (r.violations.empty()) r.fail("C11.shipped_threw." + msg_key(e.what()), name + ": " + e.what()); }
        fs::passthrough(false);
        r.shape = sh.h; r.sample = sample; { Hash64 fin; fin.u64(oh.h); fin.u64(mg.oh.h); r.hash = fin.h; }
        fs::end_run(true);
        return r;
    }

    Json generate(Rng& rng, const std::string& tier, std::uint64_t run) override {
        Json p = Json::object();
        p["scenario"] = "S-RUN";
        if (!shipped.empty() && mix64(run ^ 0xC11) % 5 == 0) { p["kind"] = "shipped"; p["deck_pick"] = static_cast<long long>(rng.below(100000)); return p; }
        GenOpts o; o.max_steps = tier == "thorough" ? 8 : 6; o.max_actions = 2; o.max_udq = 2; o.restart_safe_conditions = false; o.esmry = true; o.late_edits = true; o.reparent_groups = true; o.udq_unary_minus = true; o.family_snippets = true;
        p["model_seed"] = static_cast<long long>(rng.next() >> 8); p["gen"] = o.to_json(); p["physics_seed"] = static_cast<long long>(rng.next() >> 16);
        Json ms = Json::array();
        for (int s = 0; s < o.max_steps; ++s) { Json f = Json::array(); int n = static_cast<int>(rng.range(1, 3)); for (int k = 1; k < n; ++k) f.push(static_cast<double>(k) / n); f.push(1.0); ms.push(f); }
        p["ministeps"] = ms;
        Json ops = Json::array();
        { Json o0 = Json::object(); o0["when"] = "before_first"; o0["n"] = 0; o0["mask"] = static_cast<long long>(rng.chance(0.7) ? 127 : rng.range(1, 127)); ops.push(o0); }
        int nm = static_cast<int>(rng.range(0, 3));
        for (int k = 0; k < nm; ++k) { Json q = Json::object(); double u = rng.unit();
            q["when"] = u < 0.5 ? "ministep" : u < 0.75 ? "after_apply" : "end_of_step";
            q["n"] = static_cast<long long>(u < 0.5 ? rng.range(1, 14) : rng.range(1, o.max_steps));
            q["mask"] = static_cast<long long>(rng.chance(0.5) ? 255 : rng.range(1, 255)); ops.push(q); }
        p["migrations"] = ops; p["drops"] = Json::object();
        return p;
    }

    std::vector<Json> shrink(const Json& plan) override {
        std::vector<Json> out;
        if (plan.gets("kind") == "shipped") return out;
        shrink_array(plan, "migrations", out, 1);
        for (size_t k = 0; k < plan.at("migrations").size(); ++k) { long mk = static_cast<long>(plan.at("migrations")[k].geti("mask")); for (int b = 0; b < 8; ++b) if ((mk & (1 << b)) && mk != (1 << b)) { Json p = plan; p["migrations"][k]["mask"] = static_cast<long long>(1 << b); out.push_back(p); } }
        Model m = generate_model(static_cast<std::uint64_t>(plan.geti("model_seed")), GenOpts::from_json(plan.at("gen")));
        Json drops = plan.has("drops") ? plan.at("drops") : Json::object(); apply_drops(m, drops);
        for (int k = 1; k < m.nsteps(); ++k) { Json p = plan; p["drops"]["keep_steps"] = k; out.push_back(p); }
        auto add_action = [&](const std::string& n) { Json p = plan; Json l = drops.has("actions") ? drops.at("actions") : Json::array(); l.push(n); p["drops"]["actions"] = l; out.push_back(p); };
        for (auto& a : m.actions0) add_action(a.name);
        for (auto& s : m.steps) for (auto& a : s.actions) add_action(a.name);
        if (m.wells.size() > 1) for (auto& w : m.wells) { Json p = plan; Json l = drops.has("wells") ? drops.at("wells") : Json::array(); l.push(w.name); p["drops"]["wells"] = l; out.push_back(p); }
        if (!drops.getb("no_udq") && !m.udq_names.empty()) { Json p = plan; p["drops"]["no_udq"] = true; out.push_back(p); }
        for (int b = m.nsteps() - 1; b >= 1; --b) for (int k = static_cast<int>(m.steps[static_cast<size_t>(b)].kws.size()) - 1; k >= 0; --k) {
            Json p = plan; Json l = drops.has("kws") ? drops.at("kws") : Json::array(); Json e = Json::array(); e.push(b); e.push(k); l.push(e); p["drops"]["kws"] = l; out.push_back(p); }
        return out;
    }

    RunResult execute(const Json& plan) override {
        if (plan.gets("kind") == "shipped") return execute_shipped(plan);
        RunResult r;
        const std::string root = getenv("VERIF_RUNDIR") ? getenv("VERIF_RUNDIR") : "/dev/shm/verif.run";
        fs::begin_run(root);
        Model m = generate_model(static_cast<std::uint64_t>(plan.geti("model_seed")), GenOpts::from_json(plan.at("gen")));
        if (plan.has("drops")) apply_drops(m, plan.at("drops"));
        kw_histogram(m, r.counters);
        RunCfg cfg; cfg.physics_seed = static_cast<std::uint64_t>(plan.geti("physics_seed")); cfg.esmry = !m.fmtout;
        for (size_t k = 0; k < plan.at("ministeps").size(); ++k) { std::vector<double> f; for (size_t q = 0; q < plan.at("ministeps")[k].size(); ++q) f.push_back(plan.at("ministeps")[k][q].as_d()); cfg.ministeps.push_back(f); }
        cfg.wall_advance = {20.0}; cfg.wtest_activity = true;
        const std::string deck = deck_text(m);
        fs::note("deck", deck);
        if (getenv("VERIF_DUMP_DECK")) fs::spit("/tmp/deckA.DATA", deck);
        Hash64 sh; sh.str(m.units); sh.u64(m.wells.size()); sh.u64(static_cast<std::uint64_t>(m.nsteps()));
        struct Out { std::map<std::string, std::string> files; std::vector<std::string> firings; std::uint64_t final_state = 0; double sim_s = 0; bool ok = false; };
        Json none = Json::array();
        Migrator* mig_ptr = nullptr;
        auto run_once = [&](const std::string& dir, const Json& ops, bool active, Migrator*& keep) -> Out {
            Out o;
            enter_dir(dir);
            clk::set_wall(1.6e9);
            auto mig = std::make_unique<Migrator>(r, ops, active);
            std::unique_ptr<World> w;
            try {
                w = World::create(deck, cfg);
                if (int mk = mig->mask_at("before_first", 0, 0)) mig->migrate(*w, mk, "before the first step (broadcast)");
                w->write_initial();
                w->run(1, w->last_step(), mig.get());
                for (auto& f : w->firings) { std::string s = f.action + "@" + std::to_string(f.step) + ":"; for (auto& x : f.wells) s += x + ","; o.firings.push_back(s); }
                Hash64 h; for (size_t k = 0; k < w->sched->size(); ++k) h.u64(hash_dump(dump_state(*w->sched, k, *w->st, DumpOpts{true, true, true, false, true, true, false}))); o.final_state = h.h;
                o.sim_s = w->sim_seconds; o.ok = true;
            } catch (const std::exception& e) { if (r.violations.empty()) r.fail(std::string("C11.") + (active ? "migrated_run_threw." : "twin_run_threw.") + msg_key(e.what()), std::string(active ? "the migrated run threw: " : "the twin run threw: ") + e.what()); }
            w.reset();
            for (auto& n : fs::listdir(".")) o.files[n] = fs::slurp(n);
            enter_dir("");
            if (active) keep = mig.release();
            return o;
        };
        Migrator* dummy = nullptr;
        Out twin = run_once("T", none, false, dummy);
        Out migr;
        if (twin.ok && r.violations.empty()) migr = run_once("M", plan.at("migrations"), true, mig_ptr);
        std::unique_ptr<Migrator> mig(mig_ptr);
        if (twin.ok && migr.ok && r.violations.empty()) {
            // (1) history of the migrated run == history of the twin, bit for bit
            if (twin.firings != migr.firings) r.fail("C11.history.firings", "action firings of the migrated run differ from the twin's");
            else if (twin.final_state != migr.final_state) r.fail("C11.history.final_schedule", "the final schedule of the migrated run answers queries differently from the twin's");
            else {
                for (auto& kv : twin.files) {
                    auto it = migr.files.find(kv.first);
                    if (it == migr.files.end()) { r.fail("C11.history.file_missing", "the migrated run did not write " + kv.first); break; }
                    if (it->second != kv.second) { size_t d = 0; while (d < kv.second.size() && d < it->second.size() && kv.second[d] == it->second[d]) ++d;
                        r.fail("C11.history.file_bytes." + fs::classify(kv.first), kv.first + " of the migrated run differs from the twin's at byte " + std::to_string(d) + " (" + std::to_string(it->second.size()) + " vs " + std::to_string(kv.second.size()) + " bytes)"); break; }
                }
            }
        }
        r.counters["migrations"] = mig ? mig->migrations : 0;
        if (mig) for (auto& kv : mig->probes) r.counters[kv.first] = kv.second;
        r.counters["files_compared"] = static_cast<long>(twin.files.size());
        r.counters["probe.action_fired"] = static_cast<long>(twin.firings.size());
        r.sim_seconds = twin.sim_s + migr.sim_s;
        r.nontrivial = mig && mig->migrations > 0;
        sh.u64(mig ? static_cast<std::uint64_t>(mig->migrations) : 0); for (size_t k = 0; k < plan.at("migrations").size(); ++k) { sh.str(plan.at("migrations")[k].gets("when")); sh.u64(static_cast<std::uint64_t>(plan.at("migrations")[k].geti("mask"))); }
        r.shape = sh.h;
        Hash64 fin; fin.u64(fs::log_hash()); if (mig) fin.u64(mig->oh.h); fin.u64(twin.final_state); r.hash = fin.h;
        Json s = Json::object(); s["units"] = m.units; s["report_steps"] = m.nsteps(); s["migrations"] = plan.at("migrations"); s["firings"] = static_cast<long long>(twin.firings.size()); s["files"] = static_cast<long long>(twin.files.size());
        r.sample = s;
        for (auto& kv : fs::counters()) r.counters[kv.first] += kv.second;
        fs::end_run(true);
        return r;
    }
};

} // namespace

int main(int argc, char** argv) { C11 sc; return sim::worker_main(argc, argv, sc); }
