// C03 — the schedule is causal: state at step k depends only on input up to step k (DESIGN 5/C03).
// kind "run"    (decided by simulation): while a simulated run executes, the Schedule is mutated under the driver's feet by
//               applyAction at times the run decides; deep images (serialised bytes + public-query image) of snapshots 0..k are
//               taken when simulated time passes report step k and re-verified after every later mutation and at run end.
// kind "shipped": the same cut relation over the SCHEDULE sections of the decks shipped under /repo/tests (keyword families far
//               beyond the generator's): the parsed Deck is cut in front of a DATES/TSTEP keyword (optionally a different
//               time keyword is appended) and states 0..k are compared with the schedule of the full deck.
// kind "static" (generated-input relation run in the same harness, stated as such): for every cut point k the schedule of the
//               full deck, of the deck truncated after k and of the deck with a different tail after k agree on states 0..k.
#include "../simcore/runner.hpp"
#include "srun/driver.hpp"
#include "srun/schedcmp.hpp"
#include "srun/packing.hpp"
#include "srun/monitor.hpp"

#include <opm/input/eclipse/Deck/Deck.hpp>
#include <opm/input/eclipse/Parser/Parser.hpp>
#include <opm/input/eclipse/Schedule/ScheduleState.hpp>
#include <opm/common/utility/TimeService.hpp>
#include <opm/input/eclipse/EclipseState/Runspec.hpp>

using namespace sim;
using namespace srun;

namespace {

using Json = sim::Json;

// a different tail after step k for the same wells/groups: other step lengths, reshuffled/dropped/added events, other actions
std::vector<StepDef> other_tail(const Model& m, int k, std::uint64_t seed) {
    Rng g(seed);
    std::vector<StepDef> t = m.steps;
    std::vector<Kw> pool; for (int s = k; s < m.nsteps(); ++s) for (auto& kw : m.steps[static_cast<size_t>(s)].kws) pool.push_back(kw);
    int ns = static_cast<int>(g.range(k + 1, std::max(k + 1, m.nsteps() + 1)));
    t.resize(static_cast<size_t>(ns), m.steps.back());
    for (int s = k; s < ns; ++s) {
        auto& st = t[static_cast<size_t>(s)];
        st.by_date = false; st.days = static_cast<double>(g.range(1, 50)) + (g.chance(0.3) ? 0.5 : 0.0);
        if (s == k) continue;        // block k (the keywords entered at the end of step k) belongs to the input up to step k: only the length of step k+1 changes
        st.kws.clear(); st.actions.clear();
        int ne = static_cast<int>(g.below(4));
        for (int e = 0; e < ne; ++e) {
            if (!pool.empty() && g.chance(0.5)) st.kws.push_back(pool[g.below(pool.size())]);
            else { Kw kw; const auto& w = m.wells[g.below(m.wells.size())]; double u = g.unit();
                if (u < 0.4) { kw.name = "WEFAC"; kw.recs.push_back({"'" + w.name + "'", g.chance(0.5) ? "0.5" : "0.9"}); }
                else if (u < 0.8) { kw.name = "WELOPEN"; kw.recs.push_back({"'" + w.name + "'", g.chance(0.5) ? "'SHUT'" : "'OPEN'"}); }
                else { kw.name = "GEFAC"; auto gn = m.group_names(); kw.recs.push_back({"'" + gn[g.below(gn.size())] + "'", "0.75"}); }
                st.kws.push_back(kw); }
        }
    }
    return t;
}

struct C03 : Scenario {
    std::string id() const override { return "C03"; }
    std::vector<std::string> shipped;       // decks under /repo/tests with a SCHEDULE section of >= 2 time keywords, no PYACTION, no RESTART
    C03() { shipped = shipped_decks(2); }
    Json describe() override { Json j = Json::object(); j["scenario"] = "S-RUN monitor + static cut/tail relation"; j["real_vs_stub"] = describe_real_vs_stub(); return j; }

    Json generate(Rng& rng, const std::string& tier, std::uint64_t run) override {
        Json p = Json::object();
        const bool runkind = run % 2 == 1;
        if (!shipped.empty() && mix64(run ^ 0xC03) % 6 == 0) {
            p["scenario"] = "S-RUN"; p["kind"] = "shipped"; p["deck_pick"] = static_cast<long long>(rng.below(100000)); p["cut"] = rng.unit(); p["variant"] = static_cast<long long>(rng.below(2));
            return p;
        }
        p["scenario"] = "S-RUN"; p["kind"] = runkind ? "run" : "static";
        GenOpts o; o.max_steps = tier == "thorough" ? 10 : 7; o.max_actions = runkind ? 3 : 2; o.max_udq = 2; o.restart_safe_conditions = false; o.reparent_groups = true; o.late_edits = true; o.geo_kws = true; o.udq_unary_minus = true; o.tuning_vfp = true; o.family_snippets = true; o.family_static_free = true;
        p["model_seed"] = static_cast<long long>(rng.next() >> 8); p["gen"] = o.to_json(); p["physics_seed"] = static_cast<long long>(rng.next() >> 16);
        p["tail_seed"] = static_cast<long long>(rng.next() >> 8);
        Json ms = Json::array();
        for (int s = 0; s < o.max_steps; ++s) { Json f = Json::array(); int n = static_cast<int>(rng.range(1, 3)); for (int k = 1; k < n; ++k) f.push(static_cast<double>(k) / n); f.push(1.0); ms.push(f); }
        p["ministeps"] = ms; p["drops"] = Json::object();
        return p;
    }

    std::vector<Json> shrink(const Json& plan) override {
        std::vector<Json> out;
        if (plan.gets("kind") == "shipped") { if (plan.geti("variant") != 0) { Json p = plan; p["variant"] = 0; out.push_back(p); } for (double c : {0.0, 0.25, 0.5}) if (plan.getd("cut") > c + 0.1) { Json p = plan; p["cut"] = c; out.push_back(p); } return out; }
        Model m = generate_model(static_cast<std::uint64_t>(plan.geti("model_seed")), GenOpts::from_json(plan.at("gen")));
        Json drops = plan.has("drops") ? plan.at("drops") : Json::object(); apply_drops(m, drops);
        if (plan.gets("kind") == "static" && !plan.has("only_cut")) for (int k = 1; k < m.nsteps(); ++k) { Json p = plan; p["only_cut"] = k; out.push_back(p); }
        for (int k = 1; k < m.nsteps(); ++k) { Json p = plan; p["drops"]["keep_steps"] = k; out.push_back(p); }
        auto add_action = [&](const std::string& n) { Json p = plan; Json l = drops.has("actions") ? drops.at("actions") : Json::array(); l.push(n); p["drops"]["actions"] = l; out.push_back(p); };
        for (auto& a : m.actions0) add_action(a.name);
        for (auto& s : m.steps) for (auto& a : s.actions) add_action(a.name);
        if (m.wells.size() > 1) for (auto& w : m.wells) { Json p = plan; Json l = drops.has("wells") ? drops.at("wells") : Json::array(); l.push(w.name); p["drops"]["wells"] = l; out.push_back(p); }
        for (int b = m.nsteps() - 1; b >= 1; --b) for (int k = static_cast<int>(m.steps[static_cast<size_t>(b)].kws.size()) - 1; k >= 0; --k) {
            Json p = plan; Json l = drops.has("kws") ? drops.at("kws") : Json::array(); Json e = Json::array(); e.push(b); e.push(k); l.push(e); p["drops"]["kws"] = l; out.push_back(p); }
        if (!drops.getb("no_udq") && !m.udq_names.empty()) { Json p = plan; p["drops"]["no_udq"] = true; out.push_back(p); }
        return out;
    }

    RunResult execute_shipped(const Json& plan) {
        RunResult r;
        const std::string root = getenv("VERIF_RUNDIR") ? getenv("VERIF_RUNDIR") : "/dev/shm/verif.run";
        fs::begin_run(root);
        const std::string path = shipped.empty() ? std::string() : shipped[static_cast<size_t>(plan.geti("deck_pick")) % shipped.size()];
        Hash64 oh, sh; sh.str("shipped"); sh.str(path);
        Json sample = Json::object(); sample["kind"] = "shipped"; sample["deck"] = path.substr(path.rfind('/') + 1);
        long compared = 0;
        fs::passthrough(true);          // the shipped decks and their INCLUDE files are read from /repo/tests
        try {
            Opm::Parser parser; auto python = std::make_shared<Opm::Python>();
            std::unique_ptr<Opm::Deck> dfull; std::unique_ptr<Opm::EclipseState> es; std::unique_ptr<Opm::Schedule> full;
            try { dfull = std::make_unique<Opm::Deck>(parser.parseFile(path)); es = std::make_unique<Opm::EclipseState>(*dfull); full = std::make_unique<Opm::Schedule>(*dfull, *es, python); }
            catch (const std::exception&) { ++r.counters["shipped.unusable_deck"]; full.reset(); }
            if (full) {
                // positions of the time keywords of the SCHEDULE section
                std::vector<size_t> tpos; bool in_sched = false;
                for (size_t q = 0; q < dfull->size(); ++q) { const auto& n = (*dfull)[q].name(); if (n == "SCHEDULE") in_sched = true; else if (in_sched && (n == "DATES" || n == "TSTEP")) tpos.push_back(q); }
                if (tpos.size() >= 2) {
                    const size_t c = 1 + static_cast<size_t>(plan.getd("cut") * static_cast<double>(tpos.size() - 1)) % (tpos.size() - 1);     // cut in front of time keyword #c (>= 1)
                    Opm::Deck d2(*dfull);
                    d2.remove_keywords(static_cast<int>(tpos[c]), static_cast<int>(dfull->size()));
                    std::string vname = "cut in front of time keyword #" + std::to_string(c) + " of " + std::to_string(tpos.size());
                    if (plan.geti("variant") == 1) { d2.addKeyword((*dfull)[tpos.back()]); vname += " with the deck's last time keyword appended"; }
                    Opm::EclipseState es2(d2);
                    Opm::Schedule s2(d2, es2, python);
                    Opm::SummaryState st(Opm::TimeService::from_time_t(full->getStartTime()), es->runspec().udqParams().undefinedValue());
                    // states the two inputs have in common: the truncated input's states up to the one the cut block belongs to
                    // the state the cut block belongs to = number of report steps the time keywords in front of the cut create
                    size_t last = 0;
                    for (size_t q = 0; q < c; ++q) { const auto& tk = (*dfull)[tpos[q]]; last += tk.name() == "DATES" ? tk.size() : tk.getRecord(0).getItem(0).data_size(); }
                    sample["states_compared"] = static_cast<long long>(last + 1); sample["cut"] = static_cast<long long>(c);
                    if (last >= s2.size() || last >= full->size()) r.fail("C03.shipped.size", sample.gets("deck") + " " + vname + ": " + std::to_string(s2.size()) + " states, the full deck has " + std::to_string(full->size()));
                    else for (size_t j = 0; j <= last && r.violations.empty(); ++j) {
                        auto da = dump_state(*full, j, st, DumpOpts{true, true, true, false, true, true, false});
                        auto db = dump_state(s2, j, st, DumpOpts{true, true, true, false, true, true, false});
                        std::string cls; std::string dd = diff_dumps(da, db, false, cls);
                        compared += static_cast<long>(da.size()); oh.u64(hash_dump(db));
                        if (!dd.empty()) { r.fail("C03.shipped.query." + cls, sample.gets("deck") + ": state " + std::to_string(j) + " of the schedule " + vname + " differs from the full schedule: " + dd); break; }
                        const std::string md = state_member_diff((*full)[j], s2[j], false, false, j == last);
                        if (!md.empty()) { r.fail("C03.shipped.member." + md, sample.gets("deck") + ": state " + std::to_string(j) + " of the schedule " + vname + ": member '" + md + "' differs from the full schedule"); break; }
                    }
                    r.nontrivial = true; ++r.counters["shipped.decks_cut"];
                    sh.u64(c); sh.u64(static_cast<std::uint64_t>(plan.geti("variant")));
                } else ++r.counters["shipped.too_few_time_keywords"];
            }
        } catch (const std::exception& e) { if (r.violations.empty()) r.fail("C03.shipped_threw." + msg_key(e.what()), sample.gets("deck") + ": constructing the schedule of the cut deck threw: " + e.what()); }
        fs::passthrough(false);
        r.counters["comparisons"] = compared;
        r.shape = sh.h; r.sample = sample;
        { Hash64 fin; fin.u64(oh.h); r.hash = fin.h; }
        fs::end_run(true);
        return r;
    }

    RunResult execute(const Json& plan) override {
        if (plan.gets("kind") == "shipped") return execute_shipped(plan);
        RunResult r;
        const std::string root = getenv("VERIF_RUNDIR") ? getenv("VERIF_RUNDIR") : "/dev/shm/verif.run";
        fs::begin_run(root);
        Model m = generate_model(static_cast<std::uint64_t>(plan.geti("model_seed")), GenOpts::from_json(plan.at("gen")));
        if (plan.has("drops")) apply_drops(m, plan.at("drops"));
        kw_histogram(m, r.counters);
        const std::string kind = plan.gets("kind", "static");
        const std::string deck = deck_text(m);
        fs::note("deck", deck);
        if (getenv("VERIF_DUMP_DECK")) fs::spit("/tmp/deckA.DATA", deck);
        Hash64 oh, sh; sh.str(kind); sh.str(m.units); sh.u64(m.wells.size()); sh.u64(static_cast<std::uint64_t>(m.nsteps()));
        long compared = 0; double sim_s = 0;
        Json sample = Json::object(); sample["kind"] = kind; sample["report_steps"] = m.nsteps();
        if (kind == "run") {
            RunCfg cfg; cfg.physics_seed = static_cast<std::uint64_t>(plan.geti("physics_seed"));
            for (size_t k = 0; k < plan.at("ministeps").size(); ++k) { std::vector<double> f; for (size_t q = 0; q < plan.at("ministeps")[k].size(); ++q) f.push_back(plan.at("ministeps")[k][q].as_d()); cfg.ministeps.push_back(f); }
            Monitor mon(r, "C03");
            std::unique_ptr<World> w;
            try {
                w = World::create(deck, cfg);
                w->write_initial();
                w->run(1, w->last_step(), &mon);
                mon.verify(*w, "the end of the run", static_cast<int>(mon.query_img.size()));
                sim_s = w->sim_seconds;
            } catch (const std::exception& e) { if (r.violations.empty()) r.fail("C03.run_threw." + msg_key(e.what()), std::string("the run threw: ") + e.what()); }
            compared = mon.checks;
            r.counters["probe.mutations_during_run"] = w ? static_cast<long>(w->firings.size()) : 0;
            r.nontrivial = w && !w->firings.empty() && mon.checks > 0;
            sh.u64(w ? w->firings.size() : 0); for (auto& q : mon.query_img) oh.u64(q);   /* not pack_img: packed bytes carry shared_ptr identities (heap addresses) */
            sample["mutations"] = static_cast<long long>(w ? w->firings.size() : 0); sample["image_checks"] = static_cast<long long>(mon.checks);
            w.reset();
        } else {
            try {
                Opm::Parser parser;
                auto python = std::make_shared<Opm::Python>();
                auto dfull = parser.parseString(deck);
                Opm::EclipseState es(dfull);
                Opm::Schedule full(dfull, es, python);
                Opm::SummaryState st(Opm::TimeService::from_time_t(full.getStartTime()), es.runspec().udqParams().undefinedValue());
                std::vector<int> cuts;
                if (plan.has("only_cut")) cuts.push_back(static_cast<int>(plan.geti("only_cut"))); else for (int k = 1; k < m.nsteps(); ++k) cuts.push_back(k);
                long variants = 0;
                for (int k : cuts) {
                    if (k < 1 || k >= m.nsteps() || !r.violations.empty()) continue;
                    for (int variant = 0; variant < 3 && r.violations.empty(); ++variant) {
                        DeckOpts d; std::vector<StepDef> tail; std::string vname;
                        if (variant == 0) { d.truncate_after = k; vname = "truncated after report step " + std::to_string(k); }
                        else { tail = other_tail(m, k, static_cast<std::uint64_t>(plan.geti("tail_seed")) + static_cast<std::uint64_t>(variant * 1000 + k)); d.other_tail = &tail; d.tail_from = k; vname = "with a different tail after report step " + std::to_string(k); }
                        Model m2 = m; if (variant != 0) m2.steps = tail;
                        if (variant != 0) { d.other_tail = nullptr; d.tail_from = -1; }
                        const std::string deck2 = deck_text(m2, d);
                        auto d2 = parser.parseString(deck2);
                        Opm::EclipseState es2(d2);
                        Opm::Schedule s2(d2, es2, python);
                        ++variants;
                        if (static_cast<int>(s2.size()) <= k) { r.fail("C03.static.size", "schedule " + vname + " has only " + std::to_string(s2.size()) + " states"); break; }
                        for (int j = 0; j <= k; ++j) {
                            auto da = dump_state(full, static_cast<size_t>(j), st, DumpOpts{true, true, true, false, true, true, false});
                            auto db = dump_state(s2, static_cast<size_t>(j), st, DumpOpts{true, true, true, false, true, true, false});
                            std::string cls; std::string dd = diff_dumps(da, db, false, cls);
                            compared += static_cast<long>(da.size()); oh.u64(hash_dump(db));
                            if (!dd.empty()) { r.fail("C03.static.query." + cls, "state " + std::to_string(j) + " of the schedule " + vname + " differs from the full schedule: " + dd); break; }
                            // step k itself: its end time legitimately depends on whether (and when) a next step exists
                            const std::string md = state_member_diff(full[static_cast<size_t>(j)], s2[static_cast<size_t>(j)], false, false, j == k);
                            if (!md.empty()) { r.fail("C03.static.member." + md, "state " + std::to_string(j) + " of the schedule " + vname + ": member '" + md + "' differs from the full schedule"); break; }
                        }
                    }
                }
                r.counters["static.variants"] = variants;
                r.nontrivial = variants >= 2;
                sample["cut_points"] = static_cast<long long>(cuts.size()); sample["variants"] = variants;
            } catch (const std::exception& e) { if (r.violations.empty()) r.fail("C03.static_threw." + msg_key(e.what()), std::string("constructing a schedule threw: ") + e.what()); if (getenv("VERIF_DUMP_DECK")) fs::spit("/tmp/failed_deck.DATA", deck); }
        }
        r.counters["comparisons"] = compared;
        r.sim_seconds = sim_s; r.shape = sh.h; r.sample = sample;
        { Hash64 fin; fin.u64(fs::log_hash()); fin.u64(oh.h); r.hash = fin.h; }
        for (auto& kv : fs::counters()) r.counters[kv.first] += kv.second;
        fs::end_run(true);
        return r;
    }
};

} // namespace

int main(int argc, char** argv) { C03 sc; return sim::worker_main(argc, argv, sc); }
