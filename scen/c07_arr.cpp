// S-ARR — C07: array files round-trip and conform to the published on-disk layout.
// Writer "process": EclOutput over the simulated file layer (short writes / EINTR injected).
// Bytes are captured at the file seam and decoded by the independent codec; reader "process":
// EclFile with short reads / EINTR injected.
#include "../simcore/runner.hpp"
#include "../simcore/eclcodec.hpp"

#include <opm/io/eclipse/EclFile.hpp>
#include <opm/io/eclipse/EclOutput.hpp>
#include <opm/io/eclipse/EclUtil.hpp>

#include <climits>
#include <cmath>
#include <cstring>
#include <memory>
#include <sstream>

using namespace sim;
namespace EclIO = Opm::EclIO;

namespace {

struct Arr {
    std::string name; std::string t; long n = 0; int es = 8;
    std::vector<int> iv; std::vector<float> rv; std::vector<double> dv; std::vector<bool> lv; std::vector<std::string> cv;
    std::string typestr() const {
        if (t == "I") return "INTE"; if (t == "R") return "REAL"; if (t == "D") return "DOUB"; if (t == "L") return "LOGI"; if (t == "M") return "MESS";
        if (t == "C") return "CHAR";
        char b[8]; std::snprintf(b, sizeof b, "C%03d", es); return b;
    }
};

float float_from_bits(std::uint32_t u) { float f; std::memcpy(&f, &u, 4); return f; }
double double_from_bits(std::uint64_t u) { double d; std::memcpy(&d, &u, 8); return d; }

Arr make_array(const Json& j, bool formatted) {
    Arr a; a.name = j.gets("name"); a.t = j.gets("t"); a.n = j.geti("n"); a.es = static_cast<int>(j.geti("es", 8));
    int vk = static_cast<int>(j.geti("vk")); Rng g(static_cast<std::uint64_t>(j.geti("vs")));
    static const int iext[] = {INT_MIN, INT_MAX, 0, -1, 1, INT_MIN + 1, 1000000000, -999999999};
    for (long e = 0; e < a.n; ++e) {
        if (a.t == "I") a.iv.push_back(vk == 1 ? iext[e % 8] : vk == 2 ? static_cast<int>(e) : static_cast<int>(g.next()));
        else if (a.t == "R") {
            float f;
            if (vk == 1) { static const std::uint32_t ext[] = {0x00000001u, 0x007fffffu, 0x00800000u, 0x7f7fffffu, 0x80000000u, 0x00000000u, 0x7f800000u, 0xff800000u, 0x7fc00001u, 0x3f800000u, 0xff7fffffu, 0x80000001u}; f = float_from_bits(ext[e % 12]); }
            else if (vk == 2) f = static_cast<float>(g.real(-1e6, 1e6));
            else { std::uint32_t u = static_cast<std::uint32_t>(g.next()); f = float_from_bits(u); }
            if (formatted && std::isnan(f)) f = float_from_bits(0x7fc00000u);
            a.rv.push_back(f);
        } else if (a.t == "D") {
            double d;
            if (vk == 1) { static const std::uint64_t ext[] = {0x0000000000000001ull, 0x000fffffffffffffull, 0x0010000000000000ull, 0x7fefffffffffffffull, 0x8000000000000000ull, 0ull, 0x7ff0000000000000ull, 0xfff0000000000000ull, 0x7ff8000000000001ull, 0x3ff0000000000000ull, 0x0150000000000000ull, 0x7e37e43c8800759cull}; d = double_from_bits(ext[e % 12]); }
            else if (vk == 2) d = g.real(-1e9, 1e9);
            else d = double_from_bits(g.next());
            if (formatted && std::isnan(d)) d = double_from_bits(0x7ff8000000000000ull);
            a.dv.push_back(d);
        } else if (a.t == "L") a.lv.push_back(vk == 1 ? (e % 2 == 0) : g.chance(0.5));
        else if (a.t == "C" || a.t == "N") {
            int maxlen = a.t == "C" ? 8 : a.es;
            int len = vk == 1 ? (e % 3 == 0 ? 0 : maxlen) : static_cast<int>(g.range(0, maxlen));
            if (a.t == "N" && e == 0) len = maxlen;      // make sure the widest element exists so that the type becomes C0nn
            static const char alphabet[] = "ABCDEFGHIJKLMNOPQRSTUVWXYZ0123456789_-+*/:.abcxyz ";
            std::string s;
            for (int c = 0; c < len; ++c) s += alphabet[g.below(sizeof alphabet - 1)];
            while (!s.empty() && s.back() == ' ') s.back() = 'Z';      // readers right-trim: keep the value representable
            a.cv.push_back(s);
        }
    }
    return a;
}

void write_all(const std::string& file, const std::vector<Arr>& arrs, bool formatted, bool ix) {
    EclIO::EclOutput out(file, formatted, std::ios::out);
    if (ix) out.set_ix();
    for (auto& a : arrs) {
        if (a.t == "I") out.write(a.name, a.iv);
        else if (a.t == "R") out.write(a.name, a.rv);
        else if (a.t == "D") out.write(a.name, a.dv);
        else if (a.t == "L") out.write(a.name, a.lv);
        else if (a.t == "C") out.write(a.name, a.cv);
        else if (a.t == "N") out.write(a.name, a.cv, a.es);
        else out.message(a.name);
    }
}

struct Probe : EclIO::EclFile {
    using EclIO::EclFile::EclFile;
    std::streampos seek_of(size_t k) const { return this->seekPosition(k); }
    std::uint64_t datapos(size_t k) const { return this->ifStreamPos.at(k); }
};

template <class T> bool bits_equal(const std::vector<T>& a, const std::vector<T>& b) {
    return a.size() == b.size() && (a.empty() || !std::memcmp(a.data(), b.data(), a.size() * sizeof(T)));
}
bool close_f(float got, float want) {
    if (std::isnan(want)) return std::isnan(got);
    if (std::isinf(want)) return got == want;
    if (want == 0.0f) return got == 0.0f;
    return std::fabs(static_cast<double>(got) - static_cast<double>(want)) <= 1.2e-7 * std::fabs(static_cast<double>(want)) + 1.5e-45;
}
bool close_d(double got, double want) {
    if (std::isnan(want)) return std::isnan(got);
    if (std::isinf(want)) return got == want;
    if (want == 0.0) return got == 0.0;
    return std::fabs(got - want) <= 1e-13 * std::fabs(want) + 5e-324;
}

// compare decoded values with what was handed to the writer; "" = equal
template <class GetI, class GetR, class GetD, class GetL, class GetC>
std::string compare_values(const Arr& a, bool formatted, GetI gi, GetR gr, GetD gd, GetL gl, GetC gc) {
    if (a.t == "I") { auto& v = gi(); if (!bits_equal(v, a.iv)) return "integer values differ"; }
    else if (a.t == "R") { auto& v = gr(); if (formatted) { if (v.size() != a.rv.size()) return "REAL count differs"; for (size_t k = 0; k < v.size(); ++k) if (!close_f(v[k], a.rv[k])) { std::ostringstream o; o.precision(9); o << "REAL[" << k << "] " << v[k] << " where " << a.rv[k] << " was written"; return o.str(); } } else if (!bits_equal(v, a.rv)) return "REAL bits differ"; }
    else if (a.t == "D") { auto& v = gd(); if (formatted) { if (v.size() != a.dv.size()) return "DOUB count differs"; for (size_t k = 0; k < v.size(); ++k) if (!close_d(v[k], a.dv[k])) { std::ostringstream o; o.precision(17); o << "DOUB[" << k << "] " << v[k] << " where " << a.dv[k] << " was written"; return o.str(); } } else if (!bits_equal(v, a.dv)) return "DOUB bits differ"; }
    else if (a.t == "L") { auto& v = gl(); if (v != a.lv) return "LOGI values differ"; }
    else if (a.t == "C" || a.t == "N") { auto& v = gc(); if (v != a.cv) { for (size_t k = 0; k < std::min(v.size(), a.cv.size()); ++k) if (v[k] != a.cv[k]) return "string[" + std::to_string(k) + "] '" + v[k] + "' where '" + a.cv[k] + "' was written"; return "string count differs"; } }
    return "";
}

struct C07 : Scenario {
    std::string id() const override { return "C07"; }
    Json describe() override {
        Json j = Json::object();
        j["scenario"] = "S-ARR";
        j["real"] = "EclOutput (writer), EclFile + EclUtil size arithmetic (reader), libstdc++ filebuf over interposed write/writev/read";
        j["stub"] = "array producer (seeded values incl. extremes); independent decoder simcore/eclcodec.hpp as the on-disk-layout reference";
        return j;
    }

    Json generate(Rng& rng, const std::string& tier, std::uint64_t run) override {
        Json p = Json::object();
        p["scenario"] = "S-ARR";
        bool fmt = (run & 1) != 0;
        bool ix = (run & 2) != 0 && rng.chance(0.5);
        p["formatted"] = fmt; p["ix"] = ix;
        // the first array is the swept one: (type, length) walk through every type x every length 0..2*block+2
        static const char* types[] = {"I", "R", "D", "L", "C", "N"};
        std::uint64_t k = run / 4;
        std::string t0 = types[k % 6];
        long span = (t0 == "C" || t0 == "N") ? 2 * 105 + 3 : 2 * 1000 + 3;
        // van-der-Corput-like walk so that a short run already touches both ends and the block boundaries
        long len0 = static_cast<long>((k / 6) * 7919 % static_cast<std::uint64_t>(span));
        if ((k / 6) % 5 == 0) { static const long edge[] = {0, 1, 999, 1000, 1001, 1999, 2000, 2001, 2002, 104, 105, 106, 209, 210, 211, 212}; len0 = edge[(k / 30) % 16]; if ((t0 == "C" || t0 == "N") && len0 > 212) len0 %= 213; }
        int na = static_cast<int>(rng.range(1, tier == "thorough" ? 12 : 6));
        Json as = Json::array();
        for (int q = 0; q < na; ++q) {
            Json a = Json::object();
            std::string t = q == 0 ? t0 : (rng.chance(0.1) ? std::string("M") : std::string(types[rng.below(6)]));
            long n = q == 0 ? len0 : (rng.chance(0.15) ? rng.range(900, 5000) : rng.range(0, 30));
            if ((t == "C" || t == "N") && n > 400) n = rng.range(0, 330);
            if (t == "M") n = 0;
            std::string name;
            int nl = static_cast<int>(rng.range(1, 8));
            for (int c = 0; c < nl; ++c) name += "ABCDEFGHIJKLMNOPQRSTUVWXYZ0123456789_"[rng.below(c == 0 ? 26 : 37)];
            a["name"] = name; a["t"] = t; a["n"] = n;
            a["vk"] = static_cast<int>(rng.below(3)); a["vs"] = static_cast<long long>(rng.next() >> 8);
            if (t == "N") a["es"] = static_cast<int>(rng.chance(0.2) ? rng.range(70, 99) : rng.range(9, 40));
            as.push(a);
        }
        p["arrays"] = as;
        Json fl = Json::array();
        int nf = static_cast<int>(rng.below(4));
        for (int q = 0; q < nf; ++q) {
            Fault f; bool wr = rng.chance(0.5);
            f.op = wr ? 1 : 2; f.cls = "*"; f.nth = static_cast<long>(rng.below(12));
            f.kind = wr ? (rng.chance(0.7) ? "short_write" : "eintr") : (rng.chance(0.7) ? "short_read" : "eintr_read");
            f.arg = static_cast<long>(rng.below(100000));
            fl.push(f.to_json());
        }
        p["faults"] = fl;
        return p;
    }

    std::vector<Json> shrink(const Json& plan) override {
        std::vector<Json> out;
        shrink_array(plan, "faults", out, 0);
        shrink_array(plan, "arrays", out, 1);
        const Json& as = plan.at("arrays");
        for (size_t q = 0; q < as.size(); ++q) {
            long n = static_cast<long>(as[q].geti("n"));
            for (long m : {0L, 1L, n / 2, n - 1}) if (m >= 0 && m < n) { Json p = plan; p["arrays"][q]["n"] = m; out.push_back(p); }
            if (as[q].geti("vk") != 2) { Json p = plan; p["arrays"][q]["vk"] = 2; out.push_back(p); }
        }
        if (plan.getb("ix")) { Json p = plan; p["ix"] = false; out.push_back(p); }
        return out;
    }

    RunResult execute(const Json& plan) override {
        RunResult r;
        const std::string root = getenv("VERIF_RUNDIR") ? getenv("VERIF_RUNDIR") : "/dev/shm/verif.run";
        fs::begin_run(root);
        const bool fmt = plan.getb("formatted"), ix = plan.getb("ix");
        const std::string sfx = fmt ? ".formatted" : ".unformatted";
        std::vector<Arr> arrs;
        for (size_t k = 0; k < plan.at("arrays").size(); ++k) arrs.push_back(make_array(plan.at("arrays")[k], fmt));
        std::vector<Fault> faults;
        if (plan.has("faults")) for (size_t k = 0; k < plan.at("faults").size(); ++k) faults.push_back(Fault::from_json(plan.at("faults")[k]));
        Hash64 oh, shape;
        shape.u64(fmt); shape.u64(ix);
        for (auto& a : arrs) { shape.str(a.typestr()); shape.u64(static_cast<std::uint64_t>(a.n)); }
        for (auto& f : faults) { shape.str(f.kind); }
        const std::string file = fmt ? "ARR.FDATA" : "ARR.DATA";
        const std::string file2 = fmt ? "ARR2.FDATA" : "ARR2.DATA";

        auto done = [&]() {
            for (auto& kv : fs::counters()) r.counters[kv.first] += kv.second;
            Hash64 fin; fin.u64(fs::log_hash()); fin.u64(oh.h); r.hash = fin.h; r.shape = shape.h;
            r.nontrivial = !arrs.empty() && arrs[0].n > 0;
            Json s = Json::object(); s["formatted"] = fmt; s["ix"] = ix;
            Json l = Json::array(); for (auto& a : arrs) l.push(a.typestr() + ":" + std::to_string(a.n)); s["arrays"] = l;
            Json fl = Json::array(); for (auto& f : fs::faults()) if (f.fired) fl.push(f.kind); s["faults_fired"] = fl;
            r.sample = s;
            fs::end_run(true);
            return r;
        };

        // ---- writer, fault-free (op 0) and with write-side outcomes (op 1): identical bytes required
        try {
            fs::set_op(0); write_all(file, arrs, fmt, ix);
            fs::arm(faults);
            fs::set_op(1); write_all(file2, arrs, fmt, ix);
        } catch (const std::exception& e) { r.fail("C07.writer_threw" + sfx, e.what()); return done(); }
        std::string bytes = fs::slurp(file), bytes2 = fs::slurp(file2);
        oh.bytes(bytes.data(), bytes.size());
        if (bytes != bytes2) { r.fail("C07.chunking_changes_bytes" + sfx, "file written under short-write/EINTR outcomes differs from the fault-free file (" + std::to_string(bytes2.size()) + " vs " + std::to_string(bytes.size()) + " bytes)"); return done(); }

        // ---- (1)+(3) independent codec on the captured bytes
        std::vector<codec::Array> dec;
        try { dec = fmt ? codec::decode_formatted(bytes) : codec::decode_unformatted(bytes, ix); }
        catch (const codec::Error& e) { r.fail("C07.layout" + sfx, std::string("bytes on disk do not follow the published layout: ") + e.what()); return done(); }
        if (dec.size() != arrs.size()) { r.fail("C07.layout.count" + sfx, "decoder finds " + std::to_string(dec.size()) + " arrays, " + std::to_string(arrs.size()) + " were written"); return done(); }
        for (size_t k = 0; k < arrs.size(); ++k) {
            const Arr& a = arrs[k]; const codec::Array& d = dec[k];
            std::string want_type = a.typestr();
            if (a.t == "N" && a.es <= 8) want_type = "C008";
            if (d.name != a.name || d.count != a.n || d.type != want_type) {
                r.fail("C07.codec.header" + sfx, "array #" + std::to_string(k) + ": on disk '" + d.name + "' " + d.type + " " + std::to_string(d.count) + "; written '" + a.name + "' " + want_type + " " + std::to_string(a.n)); return done(); }
            std::string why = compare_values(a, fmt, [&]() -> const std::vector<int>& { return d.iv; }, [&]() -> const std::vector<float>& { return d.rv; },
                                             [&]() -> const std::vector<double>& { return d.dv; }, [&]() -> const std::vector<bool>& { return d.lv; }, [&]() -> const std::vector<std::string>& { return d.cv; });
            if (!why.empty()) { r.fail("C07.codec.values" + sfx, "array #" + std::to_string(k) + " " + a.name + " (" + want_type + "): " + why); return done(); }
            if (!fmt && ix && a.t == "L") for (auto u : d.logi_raw) if (u != 0 && u != 1) { r.fail("C07.layout.logi_ix", "IX LOGI true value is not 1"); return done(); }
        }

        // ---- (2)+(4) the library's reader on the same bytes, under short reads / EINTR
        fs::set_op(2);
        try {
            Probe f(file, EclIO::EclFile::Formatted{fmt});
            auto list = f.getList();
            if (list.size() != arrs.size()) { r.fail("C07.reader.count" + sfx, "EclFile lists " + std::to_string(list.size()) + " arrays"); return done(); }
            for (size_t k = 0; k < arrs.size(); ++k) {
                const Arr& a = arrs[k];
                if (std::get<0>(list[k]) != a.name || std::get<2>(list[k]) != a.n) { r.fail("C07.reader.header" + sfx, "array #" + std::to_string(k) + " listed as '" + std::get<0>(list[k]) + "' n=" + std::to_string(std::get<2>(list[k]))); return done(); }
                // index positions against the codec's true offsets
                if (static_cast<size_t>(f.datapos(k)) != dec[k].data_off) { r.fail("C07.reader.index" + sfx, "array #" + std::to_string(k) + ": reader's data position " + std::to_string(f.datapos(k)) + " != true offset " + std::to_string(dec[k].data_off)); return done(); }
                if (static_cast<size_t>(static_cast<std::streamoff>(f.seek_of(k))) != dec[k].header_off) { r.fail("C07.reader.seekpos" + sfx, "array #" + std::to_string(k) + ": seekPosition " + std::to_string(static_cast<std::streamoff>(f.seek_of(k))) + " != true header offset " + std::to_string(dec[k].header_off)); return done(); }
                const auto et = std::get<1>(list[k]);
                const int es = f.getElementSizeList()[k];
                std::uint64_t sz = fmt ? EclIO::sizeOnDiskFormatted(a.n, et, es) : EclIO::sizeOnDiskBinary(a.n, et, es);
                if (dec[k].data_off + sz != dec[k].end_off) { r.fail("C07.reader.size_arithmetic" + sfx, "array #" + std::to_string(k) + " " + a.typestr() + " n=" + std::to_string(a.n) + ": size arithmetic gives " + std::to_string(sz) + " bytes, the data occupy " + std::to_string(dec[k].end_off - dec[k].data_off)); return done(); }
            }
            // read in a plan-independent but non-trivial order: odd indices first, then even
            std::vector<size_t> order;
            for (size_t k = 1; k < arrs.size(); k += 2) order.push_back(k);
            for (size_t k = 0; k < arrs.size(); k += 2) order.push_back(k);
            for (size_t k : order) {
                const Arr& a = arrs[k];
                int ik = static_cast<int>(k);
                std::string why = compare_values(a, fmt, [&]() -> const std::vector<int>& { return f.get<int>(ik); }, [&]() -> const std::vector<float>& { return f.get<float>(ik); },
                                                 [&]() -> const std::vector<double>& { return f.get<double>(ik); }, [&]() -> const std::vector<bool>& { return f.get<bool>(ik); }, [&]() -> const std::vector<std::string>& { return f.get<std::string>(ik); });
                if (!why.empty()) { r.fail("C07.reader.values" + sfx, "array #" + std::to_string(k) + " " + a.name + " (" + a.typestr() + ", n=" + std::to_string(a.n) + "): " + why); return done(); }
            }
            // whole-file load gives the same
            Probe g(file, EclIO::EclFile::Formatted{fmt}, true);
            for (size_t k = 0; k < arrs.size(); ++k) {
                const Arr& a = arrs[k]; int ik = static_cast<int>(k);
                std::string why = compare_values(a, fmt, [&]() -> const std::vector<int>& { return g.get<int>(ik); }, [&]() -> const std::vector<float>& { return g.get<float>(ik); },
                                                 [&]() -> const std::vector<double>& { return g.get<double>(ik); }, [&]() -> const std::vector<bool>& { return g.get<bool>(ik); }, [&]() -> const std::vector<std::string>& { return g.get<std::string>(ik); });
                if (!why.empty()) { r.fail("C07.reader.values_preload" + sfx, "array #" + std::to_string(k) + " " + a.name + ": " + why); return done(); }
            }
        } catch (const std::exception& e) { r.fail("C07.reader_threw" + sfx, std::string("EclFile threw on a file the writer produced: ") + e.what()); return done(); }
        return done();
    }
};

} // namespace

int main(int argc, char** argv) { C07 sc; return sim::worker_main(argc, argv, sc); }
