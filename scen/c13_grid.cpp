// S-GRID — C13: grid indexing and geometry are coherent across input forms, thread counts and EGRID files (DESIGN 5/C13).
//  * "volumes independent of the number of threads": decided by simulation — activeVolume() runs on the simulated thread team
//    (simcore/threadsim) with T in {1,2,3,4,7,16} and a seeded release sequence; result must equal, bit for bit, the uncached
//    per-cell volumes.
//  * EGRID save/load: through the file seam, validated by the independent codec, reloaded by EclipseGrid(filename) and EGrid.
//  * index coherence, input-form equivalence, positivity, additivity: generated-input relations run in the same harness.
#include "../simcore/runner.hpp"
#include "../simcore/threadsim.hpp"
#include "../simcore/eclcodec.hpp"

#include <opm/input/eclipse/Deck/Deck.hpp>
#include <opm/input/eclipse/EclipseState/Grid/EclipseGrid.hpp>
#include <opm/input/eclipse/EclipseState/Grid/MapAxes.hpp>
#include <opm/input/eclipse/EclipseState/Grid/NNC.hpp>
#include <opm/input/eclipse/Parser/Parser.hpp>
#include <opm/input/eclipse/Units/UnitSystem.hpp>
#include <opm/io/eclipse/EGrid.hpp>

#include <cmath>
#include <cstring>
#include <memory>
#include <sstream>

using namespace sim;

namespace {

using Json = sim::Json;

struct AGrid {                 // abstract tensor grid, optionally sheared / faulted (corner-point only)
    int nx, ny, nz; std::vector<double> dxv, dyv, dzv; double top; std::vector<int> actnum;
    double shear_xz = 0, shear_yz = 0;       // pillars lean: x += shear_xz * (z - top)
    std::vector<double> fault;                // vertical throw per column (i,j)
    std::string units = "METRIC";
    bool mapaxes = false;
};

std::string num(double v) { char b[40]; std::snprintf(b, sizeof b, "%.17g", v); return b; }

AGrid make_grid(const Json& p) {
    Rng g(static_cast<std::uint64_t>(p.geti("grid_seed")));
    AGrid a; a.nx = static_cast<int>(p.geti("nx")); a.ny = static_cast<int>(p.geti("ny")); a.nz = static_cast<int>(p.geti("nz"));
    a.units = p.gets("units", "METRIC");
    const double L = a.units == "FIELD" ? 300 : a.units == "LAB" ? 5000 : 100;
    for (int i = 0; i < a.nx; ++i) a.dxv.push_back(std::round(g.real(0.4, 1.6) * L * 8) / 8);
    for (int j = 0; j < a.ny; ++j) a.dyv.push_back(std::round(g.real(0.4, 1.6) * L * 8) / 8);
    for (int k = 0; k < a.nz; ++k) a.dzv.push_back(std::round(g.real(0.02, 0.2) * L * 8) / 8);
    a.top = std::round(g.real(5, 30) * L);
    a.actnum.assign(static_cast<size_t>(a.nx * a.ny * a.nz), 1);
    const double pin = p.getd("inactive", 0.2);
    for (auto& v : a.actnum) if (g.chance(pin)) v = 0;
    if (p.getb("all_inactive_guard", true)) { bool any = false; for (int v : a.actnum) any = any || v; if (!any) a.actnum[0] = 1; }
    if (p.getb("sheared")) { a.shear_xz = std::round(g.real(-0.5, 0.5) * 16) / 16; a.shear_yz = std::round(g.real(-0.5, 0.5) * 16) / 16; }
    a.fault.assign(static_cast<size_t>(a.nx * a.ny), 0.0);
    if (p.getb("faulted")) for (auto& f : a.fault) f = std::round(g.real(0, 0.5) * L * 8) / 8;
    a.mapaxes = p.getb("mapaxes");
    return a;
}

std::string header(const AGrid& a) {
    std::ostringstream o; o << "RUNSPEC\nDIMENS\n " << a.nx << " " << a.ny << " " << a.nz << " /\n" << a.units << "\nGRID\n";
    if (a.mapaxes) o << "MAPUNITS\n 'METRES' /\nMAPAXES\n 100 1100 100 100 1100 100 /\n";
    return o.str();
}
std::string actnum_kw(const AGrid& a) { std::ostringstream o; o << "ACTNUM\n"; for (int v : a.actnum) o << " " << v; o << " /\n"; return o.str(); }

std::string deck_dx(const AGrid& a) {        // DX DY DZ TOPS
    std::ostringstream o; o << header(a) << "DX\n";
    for (int k = 0; k < a.nz; ++k) for (int j = 0; j < a.ny; ++j) for (int i = 0; i < a.nx; ++i) o << " " << num(a.dxv[static_cast<size_t>(i)]);
    o << " /\nDY\n"; for (int k = 0; k < a.nz; ++k) for (int j = 0; j < a.ny; ++j) for (int i = 0; i < a.nx; ++i) o << " " << num(a.dyv[static_cast<size_t>(j)]);
    o << " /\nDZ\n"; for (int k = 0; k < a.nz; ++k) for (int j = 0; j < a.ny; ++j) for (int i = 0; i < a.nx; ++i) o << " " << num(a.dzv[static_cast<size_t>(k)]);
    o << " /\nTOPS\n " << a.nx * a.ny << "*" << num(a.top) << " /\n" << actnum_kw(a);
    return o.str();
}
std::string deck_dxv(const AGrid& a) {       // DXV DYV DZV TOPS
    std::ostringstream o; o << header(a) << "DXV\n"; for (double v : a.dxv) o << " " << num(v);
    o << " /\nDYV\n"; for (double v : a.dyv) o << " " << num(v); o << " /\nDZV\n"; for (double v : a.dzv) o << " " << num(v);
    o << " /\nTOPS\n " << a.nx * a.ny << "*" << num(a.top) << " /\n" << actnum_kw(a);
    return o.str();
}
std::string deck_cp(const AGrid& a) {        // COORD / ZCORN (with shear and faults)
    std::vector<double> xs{0}, ys{0}, zs{a.top};
    for (double v : a.dxv) xs.push_back(xs.back() + v); for (double v : a.dyv) ys.push_back(ys.back() + v); for (double v : a.dzv) zs.push_back(zs.back() + v);
    const double zbot = zs.back() + 1000;
    std::ostringstream o; o << header(a) << "COORD\n";
    for (int j = 0; j <= a.ny; ++j) for (int i = 0; i <= a.nx; ++i) {
        const double x = xs[static_cast<size_t>(i)], y = ys[static_cast<size_t>(j)];
        o << " " << num(x) << " " << num(y) << " " << num(a.top) << " " << num(x + a.shear_xz * (zbot - a.top)) << " " << num(y + a.shear_yz * (zbot - a.top)) << " " << num(zbot) << "\n";
    }
    o << "/\nZCORN\n";
    for (int k = 0; k < a.nz; ++k) for (int face = 0; face < 2; ++face) for (int j = 0; j < a.ny; ++j) for (int jj = 0; jj < 2; ++jj) { for (int i = 0; i < a.nx; ++i) for (int ii = 0; ii < 2; ++ii) o << " " << num(zs[static_cast<size_t>(k + face)] + a.fault[static_cast<size_t>(j * a.nx + i)]); o << "\n"; }
    o << "/\n" << actnum_kw(a);
    return o.str();
}

struct C13 : Scenario {
    std::string id() const override { return "C13"; }
    Json describe() override { Json j = Json::object(); j["scenario"] = "S-GRID";
        j["real"] = "Parser, EclipseGrid (construction from DX/DY/DZ/TOPS, DXV/DYV/DZV, COORD/ZCORN; index maps; getCellVolume/Center/Depth; activeVolume with its OpenMP loop compiled as in production; save), EGrid, EclOutput over the interposed file layer";
        j["stub"] = "OpenMP runtime: simulated thread team (GOMP_parallel/omp_get_* defined by the harness; real threads parked and released one at a time at -finstrument-functions yield points of EclipseGrid.cpp and calculateCellVol.cpp)"; return j; }

    Json generate(Rng& rng, const std::string& tier, std::uint64_t) override {
        Json p = Json::object(); p["scenario"] = "S-GRID";
        const bool big = rng.chance(0.3);      // thread-sim grids up to 8x8x4 so that 16 threads all get work
        p["nx"] = static_cast<long long>(big ? rng.range(4, 8) : rng.range(1, 6)); p["ny"] = static_cast<long long>(big ? rng.range(4, 8) : rng.range(1, 6)); p["nz"] = static_cast<long long>(big ? rng.range(2, 4) : rng.range(1, 6));
        static const char* us[] = {"METRIC", "FIELD", "LAB", "PVT-M"}; p["units"] = us[rng.below(4)];
        p["grid_seed"] = static_cast<long long>(rng.next() >> 8); p["inactive"] = rng.chance(0.2) ? 0.0 : rng.real(0.05, 0.5);
        p["sheared"] = rng.chance(0.4); p["faulted"] = rng.chance(0.4); p["mapaxes"] = rng.chance(0.4);
        p["formatted"] = rng.chance(0.4); p["nnc"] = static_cast<long long>(rng.below(6));
        Json ts = Json::array(); static const int tl[] = {1, 2, 3, 4, 7, 16}; int nt = tier == "thorough" ? 6 : 3; for (int k = 0; k < nt; ++k) ts.push(tier == "thorough" ? tl[k] : tl[rng.below(6)]); p["teams"] = ts;
        // query/update history on ONE live grid object (the bulk-volume cache and the ACTNUM-derived maps are state)
        { Json h = Json::array(); static const char* hk[] = {"bulk", "cells", "reset_actnum", "bulk", "cells", "reset_all", "copy", "cells"}; int nh = static_cast<int>(rng.range(2, 7));
          for (int k = 0; k < nh; ++k) { Json o = Json::object(); o["op"] = hk[rng.below(8)]; o["seed"] = static_cast<long long>(rng.below(1000000)); o["p"] = rng.real(0.05, 0.6); h.push(o); } p["history"] = h; }
        p["thread_seed"] = static_cast<long long>(rng.next() >> 8); p["yield_every"] = static_cast<long long>(rng.chance(0.3) ? rng.range(1, 8) : rng.range(16, 128));
        return p;
    }

    std::vector<Json> shrink(const Json& plan) override {
        std::vector<Json> out;
        for (const char* d : {"nx", "ny", "nz"}) if (plan.geti(d) > 1) { Json p = plan; p[d] = plan.geti(d) - 1; out.push_back(p); }
        for (const char* f : {"sheared", "faulted", "mapaxes", "formatted"}) if (plan.getb(f)) { Json p = plan; p[f] = false; out.push_back(p); }
        if (plan.getd("inactive") > 0) { Json p = plan; p["inactive"] = 0.0; out.push_back(p); }
        if (plan.geti("nnc") > 0) { Json p = plan; p["nnc"] = 0; out.push_back(p); }
        shrink_array(plan, "teams", out, 1);
        if (plan.has("history")) shrink_array(plan, "history", out, 0);
        if (plan.gets("units") != "METRIC") { Json p = plan; p["units"] = "METRIC"; out.push_back(p); }
        return out;
    }

    RunResult execute(const Json& plan) override {
        RunResult r;
        const std::string root = getenv("VERIF_RUNDIR") ? getenv("VERIF_RUNDIR") : "/dev/shm/verif.run";
        fs::begin_run(root);
        Hash64 oh, sh;
        AGrid a = make_grid(plan);
        sh.u64(static_cast<std::uint64_t>(a.nx * 100 + a.ny * 10 + a.nz)); sh.str(a.units); sh.u64(plan.getb("sheared")); sh.u64(plan.getb("faulted")); sh.u64(plan.getb("formatted")); sh.u64(plan.getb("mapaxes"));
        auto fail = [&](const std::string& cls, const std::string& d) { if (r.violations.empty()) r.fail(cls, d); };
        const size_t ncell = static_cast<size_t>(a.nx * a.ny * a.nz);
        long compared = 0;
        try {
            Opm::Parser parser;
            const Opm::UnitSystem us(a.units);
            const double lf = us.to_si(Opm::UnitSystem::measure::length, 1.0);
            const bool corner_only = a.shear_xz != 0 || a.shear_yz != 0 || plan.getb("faulted");
            auto dcp = parser.parseString(deck_cp(a));
            const Opm::EclipseGrid gcp(dcp);
            // ---------------- index coherence
            size_t nact = 0;
            for (size_t g = 0; g < ncell && r.violations.empty(); ++g) {
                const auto ijk = gcp.getIJK(g);
                if (gcp.getGlobalIndex(static_cast<size_t>(ijk[0]), static_cast<size_t>(ijk[1]), static_cast<size_t>(ijk[2])) != g) fail("C13.index.ijk_global", "getGlobalIndex(getIJK(g)) != g for g=" + std::to_string(g));
                if (gcp.cellActive(g) != (a.actnum[g] != 0)) fail("C13.index.active_flag", "cellActive disagrees with ACTNUM at global index " + std::to_string(g));
                if (a.actnum[g]) { if (gcp.activeIndex(g) != nact) fail("C13.index.active_index", "activeIndex(" + std::to_string(g) + ") = " + std::to_string(gcp.activeIndex(g)) + ", expected " + std::to_string(nact));
                    else if (gcp.getGlobalIndex(nact) != g) fail("C13.index.active_to_global", "getGlobalIndex(active " + std::to_string(nact) + ") != " + std::to_string(g)); ++nact; }
                ++compared;
            }
            if (gcp.getNumActive() != nact) fail("C13.index.num_active", "getNumActive() = " + std::to_string(gcp.getNumActive()) + ", ACTNUM has " + std::to_string(nact));
            // ---------------- exact volumes (planar faces): |det| dx dy dz ; positivity
            for (size_t g = 0; g < ncell && r.violations.empty(); ++g) {
                const auto ijk = gcp.getIJK(g);
                const double exact = a.dxv[static_cast<size_t>(ijk[0])] * a.dyv[static_cast<size_t>(ijk[1])] * a.dzv[static_cast<size_t>(ijk[2])] * lf * lf * lf;   // shear has unit determinant; a fault is a translation
                const double v = gcp.getCellVolume(g);
                oh.dbl(v); ++compared;
                if (!(v > 0)) fail("C13.volume.positive", "cell " + std::to_string(g) + " has volume " + num(v));
                else if (std::fabs(v - exact) > 1e-11 * exact) fail("C13.volume.exact", "cell " + std::to_string(g) + " volume " + num(v) + ", exact value for planar faces " + num(exact));
            }
            // ---------------- input-form equivalence (tensor grids only)
            if (!corner_only && r.violations.empty()) {
                auto d1 = parser.parseString(deck_dx(a)); auto d2 = parser.parseString(deck_dxv(a));
                const Opm::EclipseGrid g1(d1), g2(d2);
                const Opm::EclipseGrid* forms[] = {&g1, &g2}; const char* names[] = {"DX/DY/DZ/TOPS", "DXV/DYV/DZV"};
                for (int f = 0; f < 2 && r.violations.empty(); ++f) {
                    const auto& gf = *forms[f];
                    if (gf.getNX() != gcp.getNX() || gf.getNY() != gcp.getNY() || gf.getNZ() != gcp.getNZ() || gf.getNumActive() != gcp.getNumActive()) fail("C13.forms.dims", std::string(names[f]) + " form has different dimensions / active count than COORD/ZCORN");
                    for (size_t g = 0; g < ncell && r.violations.empty(); ++g) {
                        ++compared;
                        const double v1 = gf.getCellVolume(g), v0 = gcp.getCellVolume(g);
                        if (std::fabs(v1 - v0) > 1e-11 * v0) fail("C13.forms.volume", std::string(names[f]) + " vs COORD/ZCORN: cell " + std::to_string(g) + " volume " + num(v1) + " vs " + num(v0));
                        const auto c1 = gf.getCellCenter(g), c0 = gcp.getCellCenter(g);
                        for (int q = 0; q < 3; ++q) if (std::fabs(c1[static_cast<size_t>(q)] - c0[static_cast<size_t>(q)]) > 1e-9 * (1 + std::fabs(c0[static_cast<size_t>(q)]))) fail("C13.forms.center", std::string(names[f]) + " vs COORD/ZCORN: cell " + std::to_string(g) + " centre differs");
                        if (std::fabs(gf.getCellDepth(g) - gcp.getCellDepth(g)) > 1e-9 * (1 + std::fabs(gcp.getCellDepth(g)))) fail("C13.forms.depth", std::string(names[f]) + " vs COORD/ZCORN: cell " + std::to_string(g) + " depth differs");
                    }
                }
                // additivity: split every cell in two along x
                AGrid b = a; b.dxv.clear(); for (double v : a.dxv) { b.dxv.push_back(v / 2); b.dxv.push_back(v / 2); } b.nx = 2 * a.nx; b.actnum.assign(static_cast<size_t>(b.nx * b.ny * b.nz), 1); b.fault.assign(static_cast<size_t>(b.nx * b.ny), 0.0);
                auto db = parser.parseString(deck_cp(b)); const Opm::EclipseGrid gb(db);
                double s0 = 0, s1 = 0; for (size_t g = 0; g < ncell; ++g) s0 += gcp.getCellVolume(g); for (size_t g = 0; g < 2 * ncell; ++g) s1 += gb.getCellVolume(g);
                if (std::fabs(s0 - s1) > 1e-11 * s0) fail("C13.volume.additive", "sum of volumes " + num(s0) + " changes to " + num(s1) + " when every cell is split in two");
            }
            // ---------------- thread independence (simulated team)
            std::vector<double> uncached;
            for (size_t k = 0; k < gcp.getNumActive(); ++k) uncached.push_back(gcp.getCellVolume(gcp.getGlobalIndex(k)));     // gcp never had activeVolume() called
            for (size_t t = 0; t < plan.at("teams").size() && r.violations.empty(); ++t) {
                const int T = static_cast<int>(plan.at("teams")[t].as_i());
                const Opm::EclipseGrid gt(dcp);      // fresh object: the cache is empty
                tsim::Config c; c.threads = T; c.seed = static_cast<std::uint64_t>(plan.geti("thread_seed")) + t; c.yield_every = static_cast<long>(plan.geti("yield_every"));
                tsim::configure(c);
                const std::vector<double>& av = gt.activeVolume();
                const auto& st = tsim::stats();
                tsim::Config off; off.threads = 1;
                r.counters["thread.teams"] += st.teams; r.counters["thread.yield_points"] += st.yield_points; r.counters["thread.decisions"] += st.decisions; r.counters["thread.switches"] += st.switches;
                if (T == 16 && gcp.getNumActive() >= 16) ++r.counters["probe.team_of_16_all_chunks_nonempty"];
                if (st.switches > 0) ++r.counters["probe.interleaved_execution"];
                sh.u64(st.release_hash.h); oh.u64(st.release_hash.h);
                ++compared;
                if (av.size() != uncached.size() || (av.size() && std::memcmp(av.data(), uncached.data(), av.size() * sizeof(double)))) {
                    size_t bad = 0; while (bad < av.size() && bad < uncached.size() && av[bad] == uncached[bad]) ++bad;
                    fail("C13.threads.volume", "activeVolume() under a team of " + std::to_string(T) + " threads (" + std::to_string(st.switches) + " context switches) differs from the per-cell volumes at active index " + std::to_string(bad));
                }
                tsim::configure(off);
                // the same object after the bulk evaluation: per-cell queries are now served from the cache
                for (size_t g = 0; g < ncell && r.violations.empty(); ++g) { if (!a.actnum[g]) continue; ++compared; const double v = gt.getCellVolume(g); const double want = uncached[gcp.activeIndex(g)];
                    if (std::memcmp(&v, &want, sizeof v)) fail("C13.history.cell_after_bulk", "getCellVolume(" + std::to_string(g) + ") = " + num(v) + " after activeVolume() was evaluated on the object, " + num(want) + " before"); }
            }
            // ---------------- history of queries and ACTNUM updates on one live object
            if (r.violations.empty() && plan.has("history")) {
                Opm::EclipseGrid live(dcp); std::vector<int> act = a.actnum; std::string trail;
                auto exact_of = [&](size_t g) { const auto ijk = gcp.getIJK(g); return a.dxv[static_cast<size_t>(ijk[0])] * a.dyv[static_cast<size_t>(ijk[1])] * a.dzv[static_cast<size_t>(ijk[2])] * lf * lf * lf; };
                auto check_live = [&](const Opm::EclipseGrid& G, bool bulk) {
                    size_t na = 0;
                    for (size_t g = 0; g < ncell && r.violations.empty(); ++g) {
                        ++compared;
                        if (G.cellActive(g) != (act[g] != 0)) { fail("C13.history.active_flag", "after [" + trail + "]: cellActive(" + std::to_string(g) + ") disagrees with the ACTNUM in force"); break; }
                        if (act[g]) { if (G.activeIndex(g) != na || G.getGlobalIndex(na) != g) { fail("C13.history.index", "after [" + trail + "]: active index maps are not inverse at global index " + std::to_string(g)); break; } ++na; }
                        const double v = G.getCellVolume(g), ex = exact_of(g);
                        if (!(std::fabs(v - ex) <= 1e-11 * ex)) { fail("C13.history.cell_volume", "after [" + trail + "]: getCellVolume(" + std::to_string(g) + ") = " + num(v) + ", exact " + num(ex)); break; }
                    }
                    if (r.violations.empty() && G.getNumActive() != na) fail("C13.history.num_active", "after [" + trail + "]: getNumActive() = " + std::to_string(G.getNumActive()) + ", ACTNUM in force has " + std::to_string(na));
                    if (r.violations.empty() && bulk) { const auto& av = G.activeVolume(); if (av.size() != na) fail("C13.history.bulk_size", "after [" + trail + "]: activeVolume() has " + std::to_string(av.size()) + " entries for " + std::to_string(na) + " active cells");
                        else for (size_t k = 0; k < na; ++k) { const double ex = exact_of(G.getGlobalIndex(k)); if (!(std::fabs(av[k] - ex) <= 1e-11 * ex)) { fail("C13.history.bulk_volume", "after [" + trail + "]: activeVolume()[" + std::to_string(k) + "] = " + num(av[k]) + ", exact " + num(ex)); break; } } }
                };
                std::unique_ptr<Opm::EclipseGrid> cp;
                Opm::EclipseGrid* cur = &live;
                for (size_t q = 0; q < plan.at("history").size() && r.violations.empty(); ++q) {
                    const Json& o = plan.at("history")[q]; const std::string op = o.gets("op"); trail += (trail.empty() ? "" : ", ") + op; ++r.counters["history." + op];
                    if (op == "bulk") check_live(*cur, true);
                    else if (op == "cells") check_live(*cur, false);
                    else if (op == "reset_actnum") { Rng hg(static_cast<std::uint64_t>(o.geti("seed"))); bool any = false; for (auto& v : act) { v = hg.chance(o.getd("p")) ? 0 : 1; any = any || v; } if (!any) act[ncell - 1] = 1; cur->resetACTNUM(act); check_live(*cur, false); }
                    else if (op == "reset_all") { cur->resetACTNUM(); act.assign(ncell, 1); check_live(*cur, false); }
                    else if (op == "copy") { cp = std::make_unique<Opm::EclipseGrid>(*cur); cur = cp.get(); if (cur == &live) {} check_live(*cur, false); }
                }
            }
            // ---------------- EGRID through the file seam
            if (r.violations.empty()) {
                const bool fmt = plan.getb("formatted");
                std::vector<Opm::NNCdata> nnc; Rng ng(static_cast<std::uint64_t>(plan.geti("grid_seed")) ^ 0x99);
                for (long q = 0; q < static_cast<long>(plan.geti("nnc")) && ncell >= 2; ++q) { size_t c1 = ng.below(ncell), c2 = ng.below(ncell); if (c1 != c2) nnc.emplace_back(std::min(c1, c2), std::max(c1, c2), std::round(ng.real(0.1, 50) * 8) / 8); }
                const std::string file = fmt ? "GRID.FEGRID" : "GRID.EGRID";
                const Opm::EclipseGrid gs(dcp);
                const std::vector<double> coord_si = gs.getCOORD(), zcorn_si = gs.getZCORN();
                gs.save(file, fmt, nnc, us);
                const std::string bytes = fs::slurp(file);
                std::vector<codec::Array> arrs;
                try { arrs = fmt ? codec::decode_formatted(bytes) : codec::decode_unformatted(bytes); } catch (const codec::Error& e) { fail("C13.egrid.layout", std::string("EGRID file does not follow the array-file layout: ") + e.what()); }
                if (r.violations.empty()) {
                    const codec::Array *cc = nullptr, *zc = nullptr, *ac = nullptr, *gu = nullptr;
                    for (auto& x : arrs) { if (x.name == "COORD") cc = &x; if (x.name == "ZCORN") zc = &x; if (x.name == "ACTNUM") ac = &x; if (x.name == "GRIDUNIT") gu = &x; }
                    if (!cc || !zc || !gu) fail("C13.egrid.arrays", "EGRID file lacks COORD/ZCORN/GRIDUNIT");
                    else {
                        const char* want_unit = a.units == "FIELD" ? "FEET" : a.units == "LAB" ? "CM" : "METRES";
                        if (gu->cv.empty() || gu->cv[0] != want_unit) fail("C13.egrid.units", "GRIDUNIT is '" + (gu->cv.empty() ? std::string() : gu->cv[0]) + "' for a " + a.units + " grid");
                        auto same_f = [&](float got, double si) { const float want = static_cast<float>(us.from_si(Opm::UnitSystem::measure::length, si)); return fmt ? std::fabs(got - want) <= 1.2e-7f * std::fabs(want) + 1e-30f : std::memcmp(&got, &want, 4) == 0; };
                        if (cc->rv.size() != coord_si.size()) fail("C13.egrid.coord_size", "COORD has " + std::to_string(cc->rv.size()) + " values"); else for (size_t k = 0; k < coord_si.size(); ++k) if (!same_f(cc->rv[k], coord_si[k])) { fail("C13.egrid.coord_value", "COORD[" + std::to_string(k) + "] is not the single-precision image of the coordinate in file units"); break; }
                        if (zc->rv.size() != zcorn_si.size()) fail("C13.egrid.zcorn_size", "ZCORN has " + std::to_string(zc->rv.size()) + " values"); else for (size_t k = 0; k < zcorn_si.size(); ++k) if (!same_f(zc->rv[k], zcorn_si[k])) { fail("C13.egrid.zcorn_value", "ZCORN[" + std::to_string(k) + "] is not the single-precision image of the depth in file units"); break; }
                        if (ac) { for (size_t g = 0; g < ncell && g < ac->iv.size(); ++g) if ((ac->iv[g] != 0) != (a.actnum[g] != 0)) { fail("C13.egrid.actnum", "ACTNUM in the file differs at cell " + std::to_string(g)); break; } }
                        else if (nact != ncell) fail("C13.egrid.actnum_missing", "EGRID of a grid with inactive cells has no ACTNUM");
                    }
                }
                if (r.violations.empty()) {
                    const Opm::EclipseGrid gl(file);
                    if (gl.getNX() != gcp.getNX() || gl.getNY() != gcp.getNY() || gl.getNZ() != gcp.getNZ()) fail("C13.egrid.dims", "reloaded grid has different dimensions");
                    else if (gl.getNumActive() != gcp.getNumActive()) fail("C13.egrid.num_active", "reloaded grid has " + std::to_string(gl.getNumActive()) + " active cells, saved " + std::to_string(gcp.getNumActive()));
                    double maxc = 0; for (double v : coord_si) maxc = std::max(maxc, std::fabs(v)); for (double v : zcorn_si) maxc = std::max(maxc, std::fabs(v));
                    for (size_t g = 0; g < ncell && r.violations.empty(); ++g) {
                        ++compared;
                        if (gl.cellActive(g) != gcp.cellActive(g)) { fail("C13.egrid.activity", "cell " + std::to_string(g) + " activity changed by save/load"); break; }
                        const auto ijk = gcp.getIJK(g);
                        const double ext = std::min({a.dxv[static_cast<size_t>(ijk[0])], a.dyv[static_cast<size_t>(ijk[1])], a.dzv[static_cast<size_t>(ijk[2])]}) * lf;
                        // one single-precision ulp per coordinate, propagated: relative volume error <= ~ 3 * ulp(maxc) / smallest extent
                        const double rel = (fmt ? 3.0 : 1.0) * 8 * 6e-8 * maxc / ext + 1e-12;
                        const double v0 = gcp.getCellVolume(g), v1 = gl.getCellVolume(g);
                        if (std::fabs(v1 - v0) > rel * v0) { fail("C13.egrid.volume", "cell " + std::to_string(g) + " volume " + num(v1) + " after save/load, " + num(v0) + " before (bound " + num(rel) + " relative)"); break; }
                        const double atol = (fmt ? 3.0 : 1.0) * 4 * 6e-8 * maxc + 1e-9;
                        if (std::fabs(gl.getCellDepth(g) - gcp.getCellDepth(g)) > atol) { fail("C13.egrid.depth", "cell " + std::to_string(g) + " depth changed by save/load beyond single precision"); break; }
                        const auto c0 = gcp.getCellCenter(g), c1 = gl.getCellCenter(g);
                        for (size_t q = 0; q < 3; ++q) if (std::fabs(c0[q] - c1[q]) > atol) { fail("C13.egrid.center", "cell " + std::to_string(g) + " centre changed by save/load beyond single precision"); break; }
                    }
                    // map axes
                    if (r.violations.empty()) {
                        const bool has = gl.getMapAxes().has_value();
                        if (has != a.mapaxes) fail("C13.egrid.mapaxes_presence", std::string("MAPAXES ") + (a.mapaxes ? "lost" : "appeared") + " in save/load");
                        else if (has) { const auto& in = gl.getMapAxes()->input(); static const float want[] = {100, 1100, 100, 100, 1100, 100}; for (size_t q = 0; q < 6; ++q) if (in.size() != 6 || in[q] != want[q]) { fail("C13.egrid.mapaxes_value", "MAPAXES values changed by save/load"); break; } }
                    }
                    // NNCs through EGrid
                    if (r.violations.empty()) {
                        Opm::EclIO::EGrid eg(file);
                        eg.load_nnc_data();
                        auto got = eg.get_nnc_ijk();
                        if (got.size() != nnc.size()) fail("C13.egrid.nnc_count", "EGRID holds " + std::to_string(got.size()) + " NNCs, " + std::to_string(nnc.size()) + " were saved");
                        else for (size_t q = 0; q < nnc.size(); ++q) {
                            const auto i1 = gcp.getIJK(nnc[q].cell1), i2 = gcp.getIJK(nnc[q].cell2);
                            if (std::get<0>(got[q]) != i1[0] || std::get<1>(got[q]) != i1[1] || std::get<2>(got[q]) != i1[2] || std::get<3>(got[q]) != i2[0] || std::get<4>(got[q]) != i2[1] || std::get<5>(got[q]) != i2[2]) { fail("C13.egrid.nnc_cells", "NNC #" + std::to_string(q) + " connects different cells after save/load"); break; }
                        }
                        if (eg.activeCells() != static_cast<int>(nact)) fail("C13.egrid.egrid_active", "EGrid reports " + std::to_string(eg.activeCells()) + " active cells");
                    }
                    if (a.units == "PVT-M") ++r.counters["probe.egrid_pvtm"];
                }
            }
        } catch (const std::exception& e) { fail("C13.threw." + msg_key(e.what()), std::string("grid construction / query threw: ") + e.what()); }
        r.counters["comparisons"] = compared;
        for (auto& kv : fs::counters()) r.counters[kv.first] += kv.second;
        r.nontrivial = ncell >= 2;
        r.shape = sh.h; Hash64 fin; fin.u64(fs::log_hash()); fin.u64(oh.h); r.hash = fin.h;
        Json s = Json::object(); s["dims"] = std::to_string(a.nx) + "x" + std::to_string(a.ny) + "x" + std::to_string(a.nz); s["units"] = a.units; s["sheared"] = plan.getb("sheared"); s["faulted"] = plan.getb("faulted"); s["teams"] = plan.at("teams"); s["formatted_egrid"] = plan.getb("formatted");
        r.sample = s;
        fs::end_run(true);
        return r;
    }
};

} // namespace

int main(int argc, char** argv) { C13 sc; return sim::worker_main(argc, argv, sc); }
