// C05 — a restarted run continues from the same dynamic state and the same schedule (DESIGN 5/C05).
// Run A to the end (images of the output directory kept per report step); for chosen restart steps n a
// "new process" builds run B from deck_B = deck + RESTART(base, n) + SKIPREST and image[n] only.
// crash-recover mode: a second execution of A is killed by the file layer at an arbitrary syscall/byte; the
// restart step is the largest n that still loads from the crash image.
#include "../simcore/runner.hpp"
#include "srun/driver.hpp"
#include "srun/schedcmp.hpp"

#include <opm/input/eclipse/Schedule/Action/ActionX.hpp>
#include <opm/input/eclipse/Schedule/Action/Actions.hpp>
#include <opm/input/eclipse/Schedule/ScheduleState.hpp>
#include <opm/input/eclipse/Schedule/Well/Well.hpp>
#include <opm/input/eclipse/Schedule/Well/WellConnections.hpp>
#include <opm/input/eclipse/Schedule/Well/Connection.hpp>
#include <opm/input/eclipse/Units/UnitSystem.hpp>
#include <opm/io/eclipse/ERst.hpp>
#include <opm/output/eclipse/Summary.hpp>
#include <opm/output/eclipse/Inplace.hpp>

#include <cmath>
#include <sstream>

using namespace sim;
using namespace srun;
using Opm::UnitSystem;

namespace {

using Json = sim::Json;

struct Rec : Observer {
    std::map<int, Opm::RestartValue> rv;
    std::map<int, Opm::SummaryState> st;
    std::map<int, Opm::UDQState> udq;
    std::map<int, Opm::Action::State> astate;
    std::string img_prefix;      // "" = no images
    std::string my_dir;
    void after_write(World& w, int r, bool substep, double, const Opm::RestartValue& v) override {
        if (substep) return;
        rv.emplace(r, v); st.emplace(r, *w.st); udq.emplace(r, *w.udq); astate.emplace(r, w.astate);
    }
    void end_of_step(World&, int r) override { if (!img_prefix.empty()) copy_files(my_dir, img_prefix + std::to_string(r)); }
    // A comparison whose two sides agree to within single precision can legitimately come out differently in a restarted run:
    // totals travel through the restart file in single precision (statement: "to single precision otherwise").  Such an
    // evaluation is recorded and the firing / continuation comparisons of that run are not judged.
    std::vector<int> borderline_steps;
    // the same for time: the time of an action's last run travels through the restart file as a single-precision number of days; a
    // waiting period that ends exactly at an evaluation time is decided by that rounding
    void before_actions(World& w, int step) override {
        const std::time_t now = w.sched->simTime(static_cast<size_t>(step));
        const double elapsed = std::difftime(now, w.sched->getStartTime());
        for (const auto& a : (*w.sched)[static_cast<size_t>(step)].actions.get()) {
            if (w.astate.run_count(a) == 0 || a.min_wait() <= 0) continue;
            const double d = std::difftime(now, w.astate.run_time(a));
            if (std::fabs(d - a.min_wait()) <= 1e-6 * elapsed + 1.0) borderline_steps.push_back(step);
        }
    }
    void on_action_eval(World& w, int step, const Opm::Action::ActionX& action, const Opm::Action::Result&) override {
        for (const auto& cond : action.conditions()) {
            char* e = nullptr; const double rhs = std::strtod(cond.rhs.quantity.c_str(), &e);
            if (!e || *e != 0 || cond.lhs.quantity.empty()) continue;            // month names, quantities on the right: not numeric
            std::vector<double> lv;
            const std::string& q = cond.lhs.quantity;
            try {
                if (cond.lhs.args.empty()) { if (w.st->has(q)) lv.push_back(w.st->get(q)); }
                else if (q[0] == 'G') { if (w.st->has_group_var(cond.lhs.args[0], q)) lv.push_back(w.st->get_group_var(cond.lhs.args[0], q)); }
                else for (const auto& wn : w.st->wells(q)) lv.push_back(w.st->get_well_var(wn, q));
            } catch (const std::exception&) {}
            for (double l : lv) if (std::fabs(l - rhs) <= 4e-6 * std::max(std::fabs(l), std::fabs(rhs))) { borderline_steps.push_back(step); break; }
        }
    }
};

bool close_rel(double a, double b, double rel, double abs_tol = 0) {
    if (a == b) return true;
    if (std::isnan(a) || std::isnan(b)) return false;
    return std::fabs(a - b) <= rel * std::max(std::fabs(a), std::fabs(b)) + abs_tol;
}

struct Cmp {
    RunResult& r; const std::string ctx; bool failed = false; long n = 0;
    void fail(const std::string& cls, const std::string& detail) { if (!failed) r.fail(cls, ctx + ": " + detail); failed = true; }
    void num(const std::string& cls, const std::string& what, double got, double want, double rel, double abs_tol = 0) {
        ++n;
        if (!close_rel(got, want, rel, abs_tol)) { std::ostringstream o; o.precision(17); o << what << ": restored " << got << ", saved " << want; fail(cls, o.str()); }
    }
};

// R1: dynamic state.  A's RestartValue (SI) against what loadRestart returned in the new process.
void compare_R1(Cmp& c, const Opm::RestartValue& a, const Opm::RestartValue& b, const World& wb, bool write_double, bool formatted, bool ecl_compat) {
    if (ecl_compat) write_double = false;
    // formatted files hold 8 (REAL) / 14 (DOUB) significant digits: printed precision
    const double sol_tol = formatted ? (write_double ? 1e-13 : 1.2e-7) : 4e-15;
    const double dbl_tol = formatted ? 1e-13 : 1e-14;
    const auto& us = wb.es->getUnits();
    // solution arrays: stored as float (or double) of the deck-unit value
    for (const char* key : {"PRESSURE", "SWAT", "SGAS", "RS"}) {
        if (!a.solution.has(key)) continue;
        if (!b.solution.has(key)) { c.fail("C05.R1.solution.missing", std::string(key) + " not restored"); return; }
        const auto& va = a.solution.data<double>(key); const auto& vb = b.solution.data<double>(key);
        if (va.size() != vb.size()) { c.fail("C05.R1.solution.size", std::string(key) + " size differs"); return; }
        const auto dim = a.solution.at(key).dim;
        for (size_t k = 0; k < va.size() && !c.failed; ++k) {
            const double deck = us.from_si(dim, va[k]);
            const double want = write_double ? us.to_si(dim, deck) : us.to_si(dim, static_cast<double>(static_cast<float>(deck)));
            c.num(std::string("C05.R1.solution.") + key, std::string(key) + "[" + std::to_string(k) + "]", vb[k], want, sol_tol);
        }
    }
    if (!ecl_compat) for (const auto& ed : extra_catalogue()) {
        const std::string key = ed.key;
        if (!a.hasExtra(key)) continue;
        if (!b.hasExtra(key)) { c.fail("C05.R1.extra.missing", "extra array " + key + " not restored"); return; }
        const auto& ea = a.getExtra(key); const auto& eb = b.getExtra(key);
        if (ea.size() != eb.size()) { c.fail("C05.R1.extra.size", key + " size differs"); return; }
        for (size_t k = 0; k < ea.size(); ++k) c.num("C05.R1.extra", key + "[" + std::to_string(k) + "]", eb[k], ea[k], dbl_tol);
    }
    using R = Opm::data::Rates::opt;
    for (const auto& kv : a.wells) {
        const auto& wa = kv.second;
        if (!wa.flowing()) continue;
        auto it = b.wells.find(kv.first);
        if (it == b.wells.end()) { c.fail("C05.R1.well.missing", "flowing well " + kv.first + " not restored"); return; }
        const auto& wbv = it->second;
        const std::string p = "well " + kv.first + " ";
        for (auto ph : {R::oil, R::wat, R::gas}) c.num("C05.R1.well.rate", p + "rate", wbv.rates.get(ph, 0.0), wa.rates.get(ph, 0.0), dbl_tol, 1e-30);
        c.num("C05.R1.well.bhp", p + "bhp", wbv.bhp, wa.bhp, dbl_tol);
        c.num("C05.R1.well.thp", p + "thp", wbv.thp, wa.thp, dbl_tol);
        if (!(wbv.current_control == wa.current_control)) c.fail("C05.R1.well.current_control", p + "active control differs");
        for (const auto& ca : wa.connections) {
            const auto* cb = wbv.find_connection(ca.index);
            if (!ca.rates.flowing()) continue;
            if (!cb) { c.fail("C05.R1.conn.missing", p + "connection in cell " + std::to_string(ca.index) + " not restored"); return; }
            for (auto ph : {R::oil, R::wat, R::gas}) c.num("C05.R1.conn.rate", p + "connection " + std::to_string(ca.index) + " rate", cb->rates.get(ph, 0.0), ca.rates.get(ph, 0.0), dbl_tol, 1e-30);
            c.num("C05.R1.conn.pressure", p + "connection " + std::to_string(ca.index) + " pressure", cb->pressure, ca.pressure, dbl_tol);
        }
        for (const auto& sa : wa.segments) {
            auto sb = wbv.segments.find(sa.first);
            if (sb == wbv.segments.end()) { c.fail("C05.R1.segment.missing", p + "segment " + std::to_string(sa.first) + " not restored"); return; }
            c.num("C05.R1.segment.pressure", p + "segment " + std::to_string(sa.first) + " pressure",
                  sb->second.pressures[Opm::data::SegmentPressures::Value::Pressure], sa.second.pressures[Opm::data::SegmentPressures::Value::Pressure], dbl_tol);
        }
    }
}

// R2: cumulative totals, UDQ values, ACTIONX run records
void compare_R2(Cmp& c, const Opm::SummaryState& sa, const Opm::SummaryState& sb, const Opm::Action::State& aa, const Opm::Action::State& ab,
                const World& wa, int n, const Model& m) {
    const double T = m.fmtout ? 2e-13 : 1e-13;
    const auto& sched = *wa.sched;
    const size_t sim_step = static_cast<size_t>(n > 0 ? n - 1 : 0);
    static const char* wtot[] = {"WOPT", "WWPT", "WGPT", "WVPT", "WWIT", "WGIT", "WVIT", "WOPTH", "WWPTH", "WGPTH", "WWITH", "WGITH"};
    for (const auto& wn : sched.wellNames(sim_step)) for (const char* k : wtot) {
        if (!sa.has_well_var(wn, k)) continue;
        const double want = sa.get_well_var(wn, k);
        const double got = sb.has_well_var(wn, k) ? sb.get_well_var(wn, k) : 0.0;
        c.num(std::string("C05.R2.total.") + k, std::string(k) + ":" + wn, got, want, T, 1e-300);
    }
    static const char* gtot[] = {"GOPT", "GWPT", "GGPT", "GVPT", "GWIT", "GGIT", "GVIT", "GOPTH", "GWPTH", "GGPTH", "GWITH", "GGITH"};
    for (const auto& gn : sched.groupNames(sim_step)) for (const char* k : gtot) {
        if (gn == "FIELD") {
            std::string fk = std::string("F") + (k + 1);
            if (!sa.has(fk)) continue;
            c.num("C05.R2.total." + fk, fk, sb.has(fk) ? sb.get(fk) : 0.0, sa.get(fk), T, 1e-300);
        } else {
            if (!sa.has_group_var(gn, k)) continue;
            c.num(std::string("C05.R2.total.") + k, std::string(k) + ":" + gn, sb.has_group_var(gn, k) ? sb.get_group_var(gn, k) : 0.0, sa.get_group_var(gn, k), T, 1e-300);
        }
    }
    // UDQ values held in the summary state
    for (const auto& u : m.udq_names) {
        if (u[0] == 'F') { if (sa.has(u)) c.num("C05.R2.udq.field", u, sb.has(u) ? sb.get(u) : std::nan(""), sa.get(u), T); }
        else for (const auto& wn : sched.wellNames(sim_step)) if (sa.has_well_var(wn, u)) c.num("C05.R2.udq.well", u + ":" + wn, sb.has_well_var(wn, u) ? sb.get_well_var(wn, u) : std::nan(""), sa.get_well_var(wn, u), T);
    }
    // ACTIONX run records (state at the time the restart file was written)
    const auto& acts = (*wa.sched)[static_cast<size_t>(n)].actions.get();
    for (const auto& act : acts) {
        const size_t ca = aa.run_count(act), cb = ab.run_count(act);
        ++c.n;
        if (ca != cb) { c.fail("C05.R2.action.run_count", "action " + act.name() + ": run count restored as " + std::to_string(cb) + ", was " + std::to_string(ca)); continue; }
        // the elapsed time of the last run travels through the single-precision SACT array (in deck time units)
        const double elapsed = ca > 0 ? std::difftime(aa.run_time(act), wa.sched->getStartTime()) : 0;
        if (ca > 0 && std::fabs(std::difftime(aa.run_time(act), ab.run_time(act))) > 1.0 + 2.4e-7 * elapsed) c.fail("C05.R2.action.run_time", "action " + act.name() + ": last run time restored as " + std::to_string(ab.run_time(act)) + ", was " + std::to_string(aa.run_time(act)));
    }
}

struct C05 : Scenario {
    std::string id() const override { return "C05"; }
    Json describe() override { Json j = Json::object(); j["scenario"] = "S-RUN restart"; j["real_vs_stub"] = describe_real_vs_stub();
        j["protocol"] = "output of report step r first, then the actions of step r (msim order) + Action::State::add_run; run B first evaluates the actions of step n on the restored state, then continues with n+1"; return j; }

    Json generate(Rng& rng, const std::string& tier, std::uint64_t run) override {
        Json p = Json::object();
        p["scenario"] = "S-RUN";
        if (run == 0) {
            // deterministic probe for the recorded known finding (DESIGN 8): WELTARG on a rate target WCONPROD left defaulted, FIELD units
            GenOpts o; o.max_steps = 4; o.max_actions = 0; o.max_udq = 0; o.step_events = false; o.allow_history = false; o.allow_msw = false; o.units = "FIELD";
            o.weltarg_safe = false; o.stop_safe = true; o.nonmidnight = false; o.fmtout = 0; o.unifout = 1;
            p["probe"] = "weltarg_on_defaulted_target"; p["model_seed"] = 424242; p["gen"] = o.to_json(); p["physics_seed"] = 7; p["write_double"] = false; p["ecl_compat"] = false;
            Json ms = Json::array(); for (int s = 0; s < 4; ++s) { Json f = Json::array(); f.push(1.0); ms.push(f); } p["ministeps"] = ms;
            p["mode"] = "restart"; Json rs = Json::array(); rs.push(0); p["restart_picks"] = rs; p["same_base"] = true;
            Fault f; p["crash"] = f.to_json(); p["drops"] = Json::object();
            return p;
        }
        GenOpts o; o.family_snippets = true; o.late_edits = true; o.wecon_full = true; o.gconinje = true; o.udq_unary_minus = true; o.max_steps = tier == "thorough" ? 9 : 6; o.max_actions = 2; o.max_udq = 2; o.restart_safe_conditions = true; o.nested_parens = false; o.stop_safe = true; o.date_conditions = (run % 3 == 0);
        p["model_seed"] = static_cast<long long>(rng.next() >> 8);
        p["gen"] = o.to_json();
        p["physics_seed"] = static_cast<long long>(rng.next() >> 16);
        p["write_double"] = rng.chance(0.4);
        p["extra_mask"] = static_cast<long long>(rng.chance(0.25) ? 1 : rng.range(1, 31));
        p["ecl_compat"] = rng.chance(0.25);
        Json ms = Json::array();
        for (int s = 0; s < o.max_steps; ++s) { Json f = Json::array(); int n = static_cast<int>(rng.chance(0.5) ? 1 : rng.range(2, 3)); for (int k = 1; k < n; ++k) f.push(static_cast<double>(k) / n); f.push(1.0); ms.push(f); }
        p["ministeps"] = ms;
        p["mode"] = (run % 4 == 3) ? "crash_recover" : "restart";
        // restart steps are interpreted modulo the steps that have a restart file
        Json rs = Json::array(); int nr = tier == "thorough" ? 4 : 2; for (int k = 0; k < nr; ++k) rs.push(static_cast<long long>(rng.below(1000))); p["restart_picks"] = rs;
        p["same_base"] = rng.chance(0.5);
        Fault f; f.op = 0; f.cls = "*"; f.nth = static_cast<long>(rng.below(1000000)); f.kind = rng.chance(0.4) ? "crash_before" : "torn"; f.arg = static_cast<long>(rng.below(100000)); p["crash"] = f.to_json();
        p["drops"] = Json::object();
        return p;
    }

    std::vector<Json> shrink(const Json& plan) override {
        std::vector<Json> out;
        Model m = generate_model(static_cast<std::uint64_t>(plan.geti("model_seed")), GenOpts::from_json(plan.at("gen")));
        Json drops = plan.has("drops") ? plan.at("drops") : Json::object();
        apply_drops(m, drops);
        if (plan.at("restart_picks").size() > 1) for (size_t k = 0; k < plan.at("restart_picks").size(); ++k) { Json p = plan; Json l = Json::array(); l.push(plan.at("restart_picks")[k]); p["restart_picks"] = l; out.push_back(p); }
        for (int k = 1; k < m.nsteps(); ++k) { Json p = plan; p["drops"]["keep_steps"] = k; out.push_back(p); }
        auto add_action = [&](const std::string& n) { Json p = plan; Json l = drops.has("actions") ? drops.at("actions") : Json::array(); l.push(n); p["drops"]["actions"] = l; out.push_back(p); };
        for (auto& a : m.actions0) add_action(a.name);
        for (auto& s : m.steps) for (auto& a : s.actions) add_action(a.name);
        if (!drops.getb("no_udq") && !m.udq_names.empty()) { Json p = plan; p["drops"]["no_udq"] = true; out.push_back(p); }
        if (m.wells.size() > 1) for (auto& w : m.wells) { Json p = plan; Json l = drops.has("wells") ? drops.at("wells") : Json::array(); l.push(w.name); p["drops"]["wells"] = l; out.push_back(p); }
        for (int b = m.nsteps() - 1; b >= 1; --b) for (int k = static_cast<int>(m.steps[static_cast<size_t>(b)].kws.size()) - 1; k >= 0; --k) {
            Json p = plan; Json l = drops.has("kws") ? drops.at("kws") : Json::array(); Json e = Json::array(); e.push(b); e.push(k); l.push(e); p["drops"]["kws"] = l; out.push_back(p); }
        bool multi = false; for (size_t k = 0; k < plan.at("ministeps").size(); ++k) if (plan.at("ministeps")[k].size() > 1) multi = true;
        if (multi) { Json p = plan; Json ms = Json::array(); for (size_t k = 0; k < plan.at("ministeps").size(); ++k) { Json f = Json::array(); f.push(1.0); ms.push(f); } p["ministeps"] = ms; out.push_back(p); }
        if (plan.getb("write_double")) { Json p = plan; p["write_double"] = false; out.push_back(p); }
        if (plan.geti("extra_mask", 1) != 1) { Json p = plan; p["extra_mask"] = 1; out.push_back(p); }
        return out;
    }

    RunResult execute(const Json& plan) override {
        RunResult r;
        const std::string root = getenv("VERIF_RUNDIR") ? getenv("VERIF_RUNDIR") : "/dev/shm/verif.run";
        fs::begin_run(root);
        Model m = generate_model(static_cast<std::uint64_t>(plan.geti("model_seed")), GenOpts::from_json(plan.at("gen")));
        if (plan.has("drops")) apply_drops(m, plan.at("drops"));
        kw_histogram(m, r.counters);
        const bool probe = plan.has("probe");
        if (probe) {
            const std::string wn = m.wells[0].name;      // the first well is always an oil producer
            m.wells[0].history = false;
            for (auto& k : m.block0) if ((k.name == "WCONPROD" || k.name == "WCONHIST") && !k.recs.empty() && k.recs[0][0] == "'" + wn + "'") {
                k.name = "WCONPROD"; k.recs[0] = {"'" + wn + "'", "'OPEN'", "'BHP'", "1*", "1*", "1*", "1*", "1*", "1000"}; }
            while (m.steps.size() < 3) m.steps.push_back(m.steps.back());
            for (auto& st : m.steps) { st.by_date = false; st.days = 10; }
            Kw wt; wt.name = "WELTARG"; wt.recs.push_back({"'" + wn + "'", "'ORAT'", "1426.8"}); m.steps[1].kws.push_back(wt);
        }
        RunCfg cfg; cfg.physics_seed = static_cast<std::uint64_t>(plan.geti("physics_seed")); cfg.write_double = plan.getb("write_double"); cfg.ecl_compat = plan.getb("ecl_compat"); cfg.extra_mask = static_cast<unsigned>(plan.geti("extra_mask", 1));
        for (size_t k = 0; k < plan.at("ministeps").size(); ++k) { std::vector<double> f; for (size_t q = 0; q < plan.at("ministeps")[k].size(); ++q) f.push_back(plan.at("ministeps")[k][q].as_d()); cfg.ministeps.push_back(f); }
        const std::string mode = plan.gets("mode", "restart");
        const std::string deckA = deck_text(m);
        fs::note("deck", deckA);
        if (getenv("VERIF_DUMP_DECK")) fs::spit("/tmp/deckA.DATA", deckA);
        Hash64 oh, sh;
        sh.str(mode); sh.str(m.units); sh.u64(m.fmtout); sh.u64(m.unifout); sh.u64(cfg.write_double); sh.u64(cfg.ecl_compat); sh.u64(m.wells.size()); sh.u64(static_cast<std::uint64_t>(m.nsteps()));
        long cmp_total = 0, restarts_done = 0;
        double sim_s = 0;

        auto finish = [&]() {
            for (auto& kv : fs::counters()) r.counters[kv.first] += kv.second;
            r.counters["comparisons"] = cmp_total; r.counters["restarts"] = restarts_done;
            Hash64 fin; fin.u64(fs::log_hash()); fin.u64(oh.h); r.hash = fin.h; r.shape = sh.h; r.sim_seconds = sim_s;
            r.nontrivial = restarts_done > 0;
            Json s = Json::object(); s["mode"] = mode; s["units"] = m.units; s["fmtout"] = m.fmtout; s["unifout"] = m.unifout; s["write_double"] = cfg.write_double;
            s["wells"] = static_cast<long long>(m.wells.size()); s["report_steps"] = m.nsteps(); s["restarts"] = restarts_done; s["comparisons"] = cmp_total;
            r.sample = s;
            fs::end_run(true);
            return r;
        };

        // ------------------------------------------------------------------ run A (fault-free), images per report step
        Rec recA; recA.img_prefix = "img/"; recA.my_dir = "A";
        std::unique_ptr<World> A;
        enter_dir("A");
        try {
            fs::set_op(1);
            A = World::create(deckA, cfg);
            A->write_initial();
            A->run(1, A->last_step(), &recA);
        } catch (const std::exception& e) {
            r.fail("C05.runA_threw." + msg_key(e.what()), std::string("the fault-free run A threw: ") + e.what());
            if (getenv("VERIF_DUMP_DECK")) fs::spit("/tmp/failed_deck.DATA", deckA);
            enter_dir(""); return finish();
        }
        sim_s += A->sim_seconds;
        const int last = A->last_step();
        std::vector<int> rst_steps;
        for (int k = 1; k < last; ++k) if (A->sched->write_rst_file(static_cast<size_t>(k)) && recA.rv.count(k)) rst_steps.push_back(k);
        r.counters["probe.action_fired_in_A"] = static_cast<long>(A->firings.size());
        const long mut_A = fs::mut_calls(1);

        std::vector<int> chosen;
        if (mode == "restart") {
            for (size_t k = 0; k < plan.at("restart_picks").size() && !rst_steps.empty(); ++k) {
                int n = rst_steps[static_cast<size_t>(plan.at("restart_picks")[k].as_i()) % rst_steps.size()];
                if (std::find(chosen.begin(), chosen.end(), n) == chosen.end()) chosen.push_back(n);
            }
        } else if (!rst_steps.empty()) {
            // ---- crash-recover: execute A again in A2 with the fault aimed modulo the syscalls of the fault-free twin
            Fault f = Fault::from_json(plan.at("crash")); f.op = 2; f.nth = mut_A > 0 ? f.nth % mut_A : 0;
            enter_dir("A2");
            fs::set_op(2); fs::arm({f});
            try { auto A2 = World::create(deckA, cfg); A2->write_initial(); A2->run(1, last, nullptr); }
            catch (const std::exception&) {}
            const bool fired = !fs::faults().empty() && fs::faults()[0].fired;
            fs::arm({}); fs::revive(); fs::set_op(3);
            r.counters[std::string("fault.") + f.kind + ".fired"] = fired;
            if (fired) {
                // largest report step that loads without error from the crash image
                const std::string fname = m.unifout ? std::string("BASE.") + (m.fmtout ? "FUNRST" : "UNRST") : "";
                int best = -1;
                for (int n : rst_steps) {
                    try {
                        std::string fn = fname;
                        if (!m.unifout) { char b[32]; std::snprintf(b, sizeof b, "BASE.%c%04d", m.fmtout ? 'F' : 'X', n); fn = b; }
                        if (!fs::exists(fn)) continue;
                        Opm::EclIO::ERst rst(fn);
                        if (!rst.hasReportStepNumber(n)) continue;
                        bool ok = true;
                        for (auto& e : rst.listOfRstArrays(n)) { const auto& nm = std::get<0>(e); const auto ty = std::get<1>(e);
                            if (ty == Opm::EclIO::INTE) rst.getRestartData<int>(nm, n, 0); else if (ty == Opm::EclIO::REAL) rst.getRestartData<float>(nm, n, 0);
                            else if (ty == Opm::EclIO::DOUB) rst.getRestartData<double>(nm, n, 0); else if (ty == Opm::EclIO::LOGI) rst.getRestartData<bool>(nm, n, 0);
                            else if (ty == Opm::EclIO::CHAR) rst.getRestartData<std::string>(nm, n, 0); }
                        // the step is complete only if its last array is the one the fault-free run wrote last
                        { Opm::EclIO::ERst ref(fs::root() + "img/" + std::to_string(n) + "/" + fn); ok = rst.listOfRstArrays(n).size() == ref.listOfRstArrays(n).size(); }
                        if (ok) best = n;
                    } catch (const std::exception&) {}
                }
                if (best >= 0) { chosen.push_back(best); ++r.counters["probe.crash_recover.restart_from_crash_image"]; copy_files("A2", "img_crash"); }
                else ++r.counters["probe.crash_recover.no_step_survived"];
            }
        }

        // ------------------------------------------------------------------ run B per chosen restart step
        for (int n : chosen) {
            if (!r.violations.empty()) break;
            const bool same_base = plan.getb("same_base");
            const std::string bdir = "B" + std::to_string(n);
            copy_files(mode == "restart" ? "img/" + std::to_string(n) : "img_crash", bdir);
            enter_dir(bdir);
            DeckOpts dopt; dopt.restart_step = n; dopt.restart_base = "BASE"; dopt.skiprest = true;
            const std::string deckB = deck_text(m, dopt);
            RunCfg cfgB = cfg; cfgB.base = same_base ? "BASE" : "BRUN";
            Rec recB;
            std::unique_ptr<World> B;
            std::ostringstream ctx; ctx << mode << " at report step " << n << " of " << last << " (" << m.units << (m.fmtout ? ", formatted" : "") << (m.unifout ? ", unified" : ", separate") << (cfg.write_double ? ", double" : "") << (cfg.ecl_compat ? ", ecl-compatible" : "") << ")";
            Cmp c{r, ctx.str()};
            try {
                fs::set_op(100 + n);
                B = World::create(deckB, cfgB, n);
            } catch (const std::exception& e) {
                c.fail("C05.restart_construct_threw." + msg_key(e.what()), std::string("building the restarted run threw: ") + e.what());
                if (getenv("VERIF_DUMP_DECK")) { fs::spit("/tmp/failed_deckB.DATA", deckB); fs::spit("/tmp/failed_deck.DATA", deckA); }
                break;
            }
            ++restarts_done; sh.u64(static_cast<std::uint64_t>(n));
            if (getenv("VERIF_DEBUG")) {
                for (int k = std::max(0, n - 1); k <= std::min(last, n + 1); ++k) for (const auto& wn : B->sched->wellNames(static_cast<size_t>(k))) {
                    const auto& wb = B->sched->getWell(wn, static_cast<size_t>(k)); const auto& wa = A->sched->getWell(wn, static_cast<size_t>(k));
                    fprintf(stderr, "DEBUG step %d well %s statusA=%s statusB=%s msw=%d\n", k, wn.c_str(), Opm::WellStatus2String(wa.getStatus()).c_str(), Opm::WellStatus2String(wb.getStatus()).c_str(), wa.isMultiSegment());
                    if (wa.isProducer() && wb.isProducer()) fprintf(stderr, "   bhpA=%.10g bhpB=%.10g predA=%d predB=%d\n", wa.productionControls(*A->st).bhp_limit, wb.productionControls(*A->st).bhp_limit, wa.predictionMode(), wb.predictionMode());
                    for (const auto& cb : wb.getConnections()) fprintf(stderr, "   B conn %zu depth %.6f CF %.6g\n", cb.global_index(), cb.depth(), cb.CF());
                    for (const auto& ca : wa.getConnections()) fprintf(stderr, "   A conn %zu depth %.6f CF %.6g\n", ca.global_index(), ca.depth(), ca.CF());
                }
            }
            // R1 + R2 on the freshly loaded state
            compare_R1(c, recA.rv.at(n), B->restored, *B, cfg.write_double, m.fmtout, cfg.ecl_compat);
            if (!c.failed) compare_R2(c, recA.st.at(n), *B->st, recA.astate.at(n), B->astate, *A, n, m);
            // R4: continuation.  B first evaluates the actions of step n on the restored state, then continues.
            if (!c.failed) {
                try {
                    if (GenOpts::from_json(plan.at("gen")).date_conditions) {
                        // protocol variant "eval at restart time": a zero-length summary evaluation on the restored well data gives the
                        // restarted run its calendar vectors (DAY/MONTH/YEAR are not stored in restart files) before the actions of step n
                        Opm::data::GroupAndNetworkValues xg;
                        B->io->summary().eval(*B->st, n, B->sched->seconds(static_cast<size_t>(n)), B->restored.wells, {}, xg, {}, {}, {});
                        ++r.counters["probe.eval_at_restart_time"];
                    }
                    B->post_step(n, &recB);
                    B->run(n + 1, last, &recB);
                } catch (const std::exception& e) { c.fail("C05.R4.continuation_threw." + msg_key(e.what()), std::string("the restarted run threw while continuing: ") + e.what()); }
                sim_s += B ? B->sim_seconds : 0;
            }
            bool borderline = !recB.borderline_steps.empty();
            for (int bs : recA.borderline_steps) if (bs >= n) borderline = true;
            if (borderline) ++r.counters["probe.condition_within_single_precision_of_its_threshold"];
            if (!c.failed && !borderline) {
                // firings of A at steps >= n against all firings of B
                std::vector<std::string> fa, fb;
                auto fstr = [](const Firing& f) { std::string s = f.action + "@" + std::to_string(f.step) + ":"; for (auto& w : f.wells) s += w + ","; return s; };
                for (auto& f : A->firings) if (f.step >= n) fa.push_back(fstr(f));
                for (auto& f : B->firings) fb.push_back(fstr(f));
                if (fa != fb) { std::string sa, sb; for (auto& x : fa) sa += x + " "; for (auto& x : fb) sb += x + " "; c.fail("C05.R4.firings", "action firings after the restart differ: original run [" + sa + "], restarted run [" + sb + "]"); }
                r.counters["probe.firing_after_restart"] += static_cast<long>(fb.size());
            }
            if (getenv("VERIF_DEBUG")) for (int k = n; k <= last; ++k) if (recA.st.count(k) && recB.st.count(k)) {
                const auto& sa = recA.st.at(k); const auto& sb = recB.st.at(k);
                for (const auto& wn : A->sched->wellNames(static_cast<size_t>(k - 1))) for (const char* key : {"WOPTH", "WOPRH", "WOPT", "WOPR", "WWPTH", "WWPRH"})
                    if (sa.has_well_var(wn, key)) fprintf(stderr, "DEBUG step %d %s:%s A=%.10g B=%.10g\n", k, key, wn.c_str(), sa.get_well_var(wn, key), sb.has_well_var(wn, key) ? sb.get_well_var(wn, key) : -1.0);
            }
            if (!c.failed && !probe && !borderline && !getenv("VERIF_SKIP_R4SUM")) {
                // cumulative totals and UDQ values at every later report step (float tolerance: the restart stored doubles, so tight)
                for (int k = n + 1; k <= last && !c.failed; ++k) {
                    if (!recA.st.count(k) || !recB.st.count(k)) continue;
                    const auto& sa = recA.st.at(k); const auto& sb = recB.st.at(k);
                    for (const char* key : {"FOPT", "FWPT", "FGPT", "FWIT", "FGIT", "FOPTH", "FWPTH", "FOPR", "FWPR", "FGPR"}) if (sa.has(key)) c.num(std::string("C05.R4.summary.") + key, std::string(key) + " at report step " + std::to_string(k), sb.has(key) ? sb.get(key) : std::nan(""), sa.get(key), 2e-6, 1e-9);
                    for (const auto& wn : A->sched->wellNames(static_cast<size_t>(k - 1))) for (const char* key : {"WOPT", "WWPT", "WGPT", "WWIT", "WOPR"}) if (sa.has_well_var(wn, key)) c.num(std::string("C05.R4.summary.") + key, std::string(key) + ":" + wn + " at report step " + std::to_string(k), sb.has_well_var(wn, key) ? sb.get_well_var(wn, key) : std::nan(""), sa.get_well_var(wn, key), 2e-6, 1e-9);
                    for (const auto& u : m.udq_names) if (u[0] == 'F' && sa.has(u)) c.num("C05.R4.udq", u + " at report step " + std::to_string(k), sb.has(u) ? sb.get(u) : std::nan(""), sa.get(u), 2e-6, 1e-9);
                }
            }
            // R3: schedule equivalence at n and every later step (after both runs are complete)
            if (!c.failed) {
                for (int k = n; k <= last && !c.failed; ++k) {
                    const auto& stA = recA.st.count(std::max(k, 1)) ? recA.st.at(std::max(k, 1)) : *A->st;
                    auto da = dump_state(*A->sched, static_cast<size_t>(k), stA, DumpOpts{false, true, true, false, true, false, true, false});
                    auto db = dump_state(*B->sched, static_cast<size_t>(k), stA, DumpOpts{false, true, true, false, true, false, true, false});
                    std::string cls; std::string d = diff_dumps(da, db, true, cls);
                    c.n += static_cast<long>(da.size());
                    oh.u64(hash_dump(db));
                    if (!d.empty() && probe && cls.rfind("well.prod.", 0) == 0) c.fail("C05.probe.weltarg_on_defaulted_target", "schedule state " + std::to_string(k) + " (original vs restarted): " + d);
                    else if (!d.empty()) c.fail("C05.R3." + cls, "schedule state " + std::to_string(k) + " (original vs restarted): " + d);
                }
            }
            cmp_total += c.n;
            B.reset();
            enter_dir("");
        }
        A.reset();
        enter_dir("");
        return finish();
    }
};

} // namespace

int main(int argc, char** argv) { C05 sc; return sim::worker_main(argc, argv, sc); }
