// C09 — summary vectors obey accumulation and hierarchy laws, monitored as invariants while simulated
// time advances in plan-chosen ministeps, across action firings (and restarts: see C05 R2/R4).
#include "../simcore/runner.hpp"
#include "srun/driver.hpp"

#include <opm/input/eclipse/Schedule/Group/Group.hpp>
#include <opm/input/eclipse/Schedule/Well/Well.hpp>
#include <opm/input/eclipse/Units/UnitSystem.hpp>
#include <opm/input/eclipse/EclipseState/Runspec.hpp>

#include <cmath>
#include <sstream>

using namespace sim;
using namespace srun;
using Opm::UnitSystem;

namespace {

using Json = sim::Json;

struct Tot { double o = 0, w = 0, g = 0, v = 0; };     // SI cumulative

struct RefAcc : Observer {
    RunResult* r = nullptr;
    std::map<std::string, Tot> wprod, winj, gprod, ginj, whist_p, whist_i, ghist_p, ghist_i;     // totals per well / group (FIELD as group)
    long comparisons = 0; double max_rel = 0;
    Hash64 oh;
    int sy = 0, sm = 0, sd = 0;
    bool stop = false;
    std::map<std::string, long> probes;

    void check(const std::string& what, double got, double want, double scale_hint, int step, double t) {
        ++comparisons;
        oh.dbl(got);
        const double tol = 1e-10 * std::max(std::fabs(want), std::fabs(scale_hint)) + 1e-300;
        const double diff = std::fabs(got - want);
        if (std::fabs(want) > 0) max_rel = std::max(max_rel, diff / std::fabs(want));
        if (!(diff <= tol) && !stop) {
            std::ostringstream o; o.precision(17);
            o << what << " at report step " << step << ", t=" << t << " s: summary state holds " << got << ", law gives " << want;
            std::string cls = what.substr(0, what.find(':'));
            // class: vector name with the well/group name removed, e.g. C09.WOPT
            r->fail("C09.law." + cls, o.str());
            stop = true;
        }
    }

    void after_eval(World& w, int step, double t, double dt, const Opm::data::Wells& xw) override {
        if (stop) return;
        const auto& sched = *w.sched; const auto& st = *w.st; const auto& us = w.es->getUnits();
        const size_t sim_step = static_cast<size_t>(step - 1);
        using M = UnitSystem::measure;
        // --- per well instantaneous quantities (SI), sign split
        struct WR { double po = 0, pw = 0, pg = 0, pv = 0, io = 0, iw = 0, ig = 0, iv = 0; double hpo = 0, hpw = 0, hpg = 0, hiw = 0, hig = 0; double wefac = 1; std::vector<std::pair<std::string, double>> chain; };
        std::map<std::string, WR> wr;
        for (const auto& name : sched.wellNames(sim_step)) {
            const auto& well = sched.getWell(name, sim_step);
            WR x;
            auto it = xw.find(name);
            const bool shut = it == xw.end() || it->second.dynamicStatus == Opm::Well::Status::SHUT;
            if (!shut) {
                const auto& rt = it->second.rates;
                double ro = rt.get(Opm::data::Rates::opt::oil, 0.0), rw = rt.get(Opm::data::Rates::opt::wat, 0.0), rg = rt.get(Opm::data::Rates::opt::gas, 0.0);
                double vo = rt.get(Opm::data::Rates::opt::reservoir_oil, 0.0), vw = rt.get(Opm::data::Rates::opt::reservoir_water, 0.0), vg = rt.get(Opm::data::Rates::opt::reservoir_gas, 0.0);
                x.po = ro < 0 ? -ro : 0; x.io = ro > 0 ? ro : 0; x.pw = rw < 0 ? -rw : 0; x.iw = rw > 0 ? rw : 0; x.pg = rg < 0 ? -rg : 0; x.ig = rg > 0 ? rg : 0;
                x.pv = (vo < 0 ? -vo : 0) + (vw < 0 ? -vw : 0) + (vg < 0 ? -vg : 0);
                x.iv = (vo > 0 ? vo : 0) + (vw > 0 ? vw : 0) + (vg > 0 ? vg : 0);
            } else if (it != xw.end() && (it->second.rates.get(Opm::data::Rates::opt::oil, 0.0) != 0 || it->second.rates.get(Opm::data::Rates::opt::wat, 0.0) != 0)) ++probes["probe.shut_well_with_nonzero_stub_rate"];
            // history: the schedule's observed/target rates read through the public controls getters; a well the
            // simulator reports as shut contributes nothing "regardless of what's in WCONHIST"
            if (!shut) {
                auto z = [&](double v) { return st.is_undefined_value(v) ? 0.0 : v; };
                if (well.isProducer()) { const auto c = well.productionControls(st); x.hpo = z(c.oil_rate); x.hpw = z(c.water_rate); x.hpg = z(c.gas_rate); }
                else { const auto c = well.injectionControls(st); if (c.injector_type == Opm::InjectorType::WATER) x.hiw = c.surface_rate; else if (c.injector_type == Opm::InjectorType::GAS) x.hig = c.surface_rate; }
            }
            x.wefac = well.getEfficiencyFactor();
            std::string g = well.groupName();
            int depth = 0;
            while (true) {
                const auto& grp = sched.getGroup(g, sim_step);
                x.chain.push_back({g, grp.getGroupEfficiencyFactor()});
                ++depth;
                if (g == "FIELD") break;
                g = grp.parent();
            }
            if (depth >= 4) ++probes["probe.group_depth_4"];
            if (x.wefac != 1.0) ++probes["probe.wefac_not_1"];
            wr[name] = x;
        }
        auto rate_u = [&](double v) { return us.from_si(M::liquid_surface_rate, v); };
        auto grate_u = [&](double v) { return us.from_si(M::gas_surface_rate, v); };
        auto vrate_u = [&](double v) { return us.from_si(M::rate, v); };
        auto vol_u = [&](double v) { return us.from_si(M::liquid_surface_volume, v); };
        auto gvol_u = [&](double v) { return us.from_si(M::gas_surface_volume, v); };
        auto rvol_u = [&](double v) { return us.from_si(M::volume, v); };
        auto wv = [&](const std::string& well, const std::string& key, double want, double hint = 0) { if (st.has_well_var(well, key)) check(key + ":" + well, st.get_well_var(well, key), want, hint, step, t); };
        auto gv = [&](const std::string& grp, const std::string& key, double want, double hint = 0) {
            if (grp == "FIELD") { std::string k = "F" + key.substr(1); if (st.has(k)) check(k + ":", st.get(k), want, hint, step, t); }
            else if (st.has_group_var(grp, key)) check(key + ":" + grp, st.get_group_var(grp, key), want, hint, step, t);
        };
        // --- wells
        for (auto& kv : wr) {
            const std::string& n = kv.first; const WR& x = kv.second;
            double eff = x.wefac; for (auto& c : x.chain) eff *= c.second;
            Tot& P = wprod[n]; Tot& I = winj[n]; Tot& HP = whist_p[n]; Tot& HI = whist_i[n];
            P.o += x.po * eff * dt; P.w += x.pw * eff * dt; P.g += x.pg * eff * dt; P.v += x.pv * eff * dt;
            I.o += x.io * eff * dt; I.w += x.iw * eff * dt; I.g += x.ig * eff * dt; I.v += x.iv * eff * dt;
            HP.o += x.hpo * eff * dt; HP.w += x.hpw * eff * dt; HP.g += x.hpg * eff * dt; HI.w += x.hiw * eff * dt; HI.g += x.hig * eff * dt;
            wv(n, "WOPR", rate_u(x.po)); wv(n, "WWPR", rate_u(x.pw)); wv(n, "WGPR", grate_u(x.pg)); wv(n, "WLPR", rate_u(x.po + x.pw)); wv(n, "WVPR", vrate_u(x.pv));
            wv(n, "WWIR", rate_u(x.iw)); wv(n, "WGIR", grate_u(x.ig)); wv(n, "WVIR", vrate_u(x.iv));
            wv(n, "WOPT", vol_u(P.o)); wv(n, "WWPT", vol_u(P.w)); wv(n, "WGPT", gvol_u(P.g)); wv(n, "WLPT", vol_u(P.o + P.w)); wv(n, "WVPT", rvol_u(P.v));
            wv(n, "WWIT", vol_u(I.w)); wv(n, "WGIT", gvol_u(I.g)); wv(n, "WVIT", rvol_u(I.v));
            wv(n, "WOPRH", rate_u(x.hpo)); wv(n, "WWPRH", rate_u(x.hpw)); wv(n, "WGPRH", grate_u(x.hpg)); wv(n, "WLPRH", rate_u(x.hpo + x.hpw));
            wv(n, "WWIRH", rate_u(x.hiw)); wv(n, "WGIRH", grate_u(x.hig));
            wv(n, "WOPTH", vol_u(HP.o)); wv(n, "WWPTH", vol_u(HP.w)); wv(n, "WGPTH", gvol_u(HP.g)); wv(n, "WLPTH", vol_u(HP.o + HP.w));
            wv(n, "WWITH", vol_u(HI.w)); wv(n, "WGITH", gvol_u(HI.g));
            if (x.po + x.pw > 0) wv(n, "WWCT", x.pw / (x.po + x.pw)); else wv(n, "WWCT", 0.0);
            if (x.po > 0) wv(n, "WGOR", us.from_si(M::gas_oil_ratio, x.pg / x.po)); else wv(n, "WGOR", 0.0);
            if (x.po + x.pw > 0) wv(n, "WGLR", us.from_si(M::gas_oil_ratio, x.pg / (x.po + x.pw))); else wv(n, "WGLR", 0.0);
            if (x.hpo + x.hpw > 0) wv(n, "WWCTH", x.hpw / (x.hpo + x.hpw)); else wv(n, "WWCTH", 0.0);
            if (x.hpo > 0) wv(n, "WGORH", us.from_si(M::gas_oil_ratio, x.hpg / x.hpo)); else wv(n, "WGORH", 0.0);
        }
        // --- groups and field: walk the tree ourselves
        std::vector<std::string> groups = sched.groupNames(sim_step);
        for (const auto& G : groups) {
            // rates: factor = wefac * prod(gefac of groups strictly below G on the path)
            double ro = 0, rw = 0, rg = 0, rv = 0, iw = 0, ig = 0, iv = 0, hpo = 0, hpw = 0, hpg = 0, hiw = 0, hig = 0;
            Tot dP, dI, dHP, dHI; double sum_abs = 0;
            for (auto& kv : wr) {
                const WR& x = kv.second;
                bool under = false; double below = x.wefac, all = x.wefac;
                for (auto& c : x.chain) { if (c.first == G) under = true; if (!under) below *= c.second; all *= c.second; }
                if (!under) continue;
                const double fr = (G == "FIELD") ? all : below;      // field rates carry every factor
                ro += x.po * fr; rw += x.pw * fr; rg += x.pg * fr; rv += x.pv * fr; iw += x.iw * fr; ig += x.ig * fr; iv += x.iv * fr;
                hpo += x.hpo * fr; hpw += x.hpw * fr; hpg += x.hpg * fr; hiw += x.hiw * fr; hig += x.hig * fr;
                dP.o += x.po * all * dt; dP.w += x.pw * all * dt; dP.g += x.pg * all * dt; dP.v += x.pv * all * dt;
                dI.w += x.iw * all * dt; dI.g += x.ig * all * dt; dI.v += x.iv * all * dt;
                dHP.o += x.hpo * all * dt; dHP.w += x.hpw * all * dt; dHP.g += x.hpg * all * dt; dHI.w += x.hiw * all * dt; dHI.g += x.hig * all * dt;
                sum_abs += x.po + x.pw;
            }
            Tot& P = gprod[G]; Tot& I = ginj[G]; Tot& HP = ghist_p[G]; Tot& HI = ghist_i[G];
            P.o += dP.o; P.w += dP.w; P.g += dP.g; P.v += dP.v; I.w += dI.w; I.g += dI.g; I.v += dI.v;
            HP.o += dHP.o; HP.w += dHP.w; HP.g += dHP.g; HI.w += dHI.w; HI.g += dHI.g;
            gv(G, "GOPR", rate_u(ro)); gv(G, "GWPR", rate_u(rw)); gv(G, "GGPR", grate_u(rg)); gv(G, "GLPR", rate_u(ro + rw)); gv(G, "GVPR", vrate_u(rv));
            gv(G, "GWIR", rate_u(iw)); gv(G, "GGIR", grate_u(ig)); gv(G, "GVIR", vrate_u(iv));
            gv(G, "GOPT", vol_u(P.o)); gv(G, "GWPT", vol_u(P.w)); gv(G, "GGPT", gvol_u(P.g)); gv(G, "GLPT", vol_u(P.o + P.w)); gv(G, "GVPT", rvol_u(P.v));
            gv(G, "GWIT", vol_u(I.w)); gv(G, "GGIT", gvol_u(I.g)); gv(G, "GVIT", rvol_u(I.v));
            gv(G, "GOPRH", rate_u(hpo)); gv(G, "GWPRH", rate_u(hpw)); gv(G, "GGPRH", grate_u(hpg)); gv(G, "GLPRH", rate_u(hpo + hpw));
            gv(G, "GWIRH", rate_u(hiw)); gv(G, "GGIRH", grate_u(hig));
            gv(G, "GOPTH", vol_u(HP.o)); gv(G, "GWPTH", vol_u(HP.w)); gv(G, "GGPTH", gvol_u(HP.g)); gv(G, "GLPTH", vol_u(HP.o + HP.w));
            gv(G, "GWITH", vol_u(HI.w)); gv(G, "GGITH", gvol_u(HI.g));
            if (ro + rw > 0) gv(G, "GWCT", rw / (ro + rw)); else gv(G, "GWCT", 0.0);
            if (ro > 0) gv(G, "GGOR", us.from_si(M::gas_oil_ratio, rg / ro)); else gv(G, "GGOR", 0.0);
            if (G == "FIELD") {
                if (ro + rw > 0) gv(G, "GGLR", us.from_si(M::gas_oil_ratio, rg / (ro + rw))); else gv(G, "GGLR", 0.0);
                if (hpo + hpw > 0) gv(G, "GWCTH", hpw / (hpo + hpw)); else gv(G, "GWCTH", 0.0);
                if (hpo > 0) gv(G, "GGORH", us.from_si(M::gas_oil_ratio, hpg / hpo)); else gv(G, "GGORH", 0.0);
            }
            (void)sum_abs;
        }
        // --- time and calendar vectors, against an independent civil-calendar computation
        check("TIME:", st.get("TIME"), us.from_si(M::time, t), 0, step, t);
        if (st.has("YEARS")) check("YEARS:", st.get("YEARS"), t / (365.25 * 86400.0), 0, step, t);
        {
            long long d0 = days_from_civil(sy, sm, sd);
            long long whole = static_cast<long long>(std::floor(t / 86400.0));
            int y, m, d; civil_from_days(d0 + whole, y, m, d);
            if (st.has("DAY")) check("DAY:", st.get("DAY"), d, 0, step, t);
            if (st.has("MONTH")) check("MONTH:", st.get("MONTH"), m, 0, step, t);
            if (st.has("YEAR")) check("YEAR:", st.get("YEAR"), y, 0, step, t);
        }
    }
};

struct C09 : Scenario {
    std::string id() const override { return "C09"; }
    Json describe() override { Json j = Json::object(); j["scenario"] = "S-RUN"; j["real_vs_stub"] = describe_real_vs_stub(); j["oracle"] = "reference accumulator (this file) following the rule documented at Summary.cpp 'EfficiencyFactor'"; return j; }

    Json generate(Rng& rng, const std::string& tier, std::uint64_t) override {
        Json p = Json::object();
        p["scenario"] = "S-RUN";
        GenOpts o; o.family_snippets = true; o.late_edits = true; o.max_steps = tier == "thorough" ? 10 : 7; o.max_actions = 2; o.max_udq = 1; o.restart_safe_conditions = false;
        p["model_seed"] = static_cast<long long>(rng.next() >> 8);
        p["gen"] = o.to_json();
        p["physics_seed"] = static_cast<long long>(rng.next() >> 16);
        // ministep plan: per report step 1..6 cut points, some tiny
        Json ms = Json::array();
        for (int s = 0; s < o.max_steps; ++s) {
            Json f = Json::array();
            int n = static_cast<int>(rng.chance(0.3) ? 1 : rng.range(2, 6));
            std::vector<double> cuts;
            for (int k = 0; k + 1 < n; ++k) cuts.push_back(rng.chance(0.2) ? 1e-6 * static_cast<double>(rng.range(1, 50)) : std::round(rng.unit() * 1000) / 1000);
            std::sort(cuts.begin(), cuts.end());
            for (double c : cuts) if (c > 0 && c < 1) f.push(c);
            f.push(1.0);
            ms.push(f);
        }
        p["ministeps"] = ms;
        p["shut_report_rates"] = rng.chance(0.5);
        p["drops"] = Json::object();
        return p;
    }

    std::vector<Json> shrink(const Json& plan) override {
        std::vector<Json> out;
        Model m = generate_model(static_cast<std::uint64_t>(plan.geti("model_seed")), GenOpts::from_json(plan.at("gen")));
        Json drops = plan.has("drops") ? plan.at("drops") : Json::object();
        apply_drops(m, drops);
        for (int k = 1; k < m.nsteps(); ++k) { Json p = plan; p["drops"]["keep_steps"] = k; out.push_back(p); }
        for (auto& a : m.actions0) { Json p = plan; Json l = drops.has("actions") ? drops.at("actions") : Json::array(); l.push(a.name); p["drops"]["actions"] = l; out.push_back(p); }
        for (auto& s : m.steps) for (auto& a : s.actions) { Json p = plan; Json l = drops.has("actions") ? drops.at("actions") : Json::array(); l.push(a.name); p["drops"]["actions"] = l; out.push_back(p); }
        if (m.wells.size() > 1) for (auto& w : m.wells) { Json p = plan; Json l = drops.has("wells") ? drops.at("wells") : Json::array(); l.push(w.name); p["drops"]["wells"] = l; out.push_back(p); }
        for (int b = m.nsteps() - 1; b >= 1; --b) for (int k = static_cast<int>(m.steps[static_cast<size_t>(b)].kws.size()) - 1; k >= 0; --k) {
            Json p = plan; Json l = drops.has("kws") ? drops.at("kws") : Json::array(); Json e = Json::array(); e.push(b); e.push(k); l.push(e); p["drops"]["kws"] = l; out.push_back(p); }
        if (!drops.getb("no_udq") && !m.udq_names.empty()) { Json p = plan; p["drops"]["no_udq"] = true; out.push_back(p); }
        // coarsen ministeps
        bool multi = false; for (size_t k = 0; k < plan.at("ministeps").size(); ++k) if (plan.at("ministeps")[k].size() > 1) multi = true;
        if (multi) { Json p = plan; Json ms = Json::array(); for (size_t k = 0; k < plan.at("ministeps").size(); ++k) { Json f = Json::array(); f.push(1.0); ms.push(f); } p["ministeps"] = ms; out.push_back(p); }
        return out;
    }

    RunResult execute(const Json& plan) override {
        RunResult r;
        const std::string root = getenv("VERIF_RUNDIR") ? getenv("VERIF_RUNDIR") : "/dev/shm/verif.run";
        fs::begin_run(root);
        Model m = generate_model(static_cast<std::uint64_t>(plan.geti("model_seed")), GenOpts::from_json(plan.at("gen")));
        if (plan.has("drops")) apply_drops(m, plan.at("drops"));
        kw_histogram(m, r.counters);
        RunCfg cfg; cfg.physics_seed = static_cast<std::uint64_t>(plan.geti("physics_seed")); cfg.shut_report_rates = plan.getb("shut_report_rates");
        for (size_t k = 0; k < plan.at("ministeps").size(); ++k) { std::vector<double> f; for (size_t q = 0; q < plan.at("ministeps")[k].size(); ++q) f.push_back(plan.at("ministeps")[k][q].as_d()); cfg.ministeps.push_back(f); }
        const std::string deck = deck_text(m);
        fs::note("deck", deck);
        RefAcc acc; acc.r = &r; acc.sy = m.sy; acc.sm = m.sm; acc.sd = m.sd;
        std::unique_ptr<World> w;
        try {
            w = World::create(deck, cfg);
            w->write_initial();
            w->run(1, w->last_step(), &acc);
        } catch (const std::exception& e) {
            if (r.violations.empty()) r.fail("C09.run_threw." + msg_key(e.what()), std::string("the fault-free run threw: ") + e.what());
            if (getenv("VERIF_DUMP_DECK")) fs::spit("/tmp/failed_deck.DATA", deck);
        }
        r.counters["comparisons"] = acc.comparisons;
        r.counters["ministeps"] = w ? w->ministeps_done : 0;
        r.counters["probe.action_fired"] = w ? static_cast<long>(w->firings.size()) : 0;
        for (auto& kv : acc.probes) r.counters[kv.first] = kv.second;
        r.sim_seconds = w ? w->sim_seconds : 0;
        Hash64 sh; sh.str(m.units); sh.u64(m.wells.size()); sh.u64(m.gruptree.size()); sh.u64(static_cast<std::uint64_t>(m.nsteps())); sh.u64(w ? w->firings.size() : 0); sh.u64(static_cast<std::uint64_t>(w ? w->ministeps_done : 0));
        for (auto& wd : m.wells) { sh.str(wd.kind); sh.u64(wd.history); sh.str(wd.group); }
        r.shape = sh.h;
        r.nontrivial = acc.comparisons > 50 && w && w->ministeps_done >= 2;
        Hash64 fin; fin.u64(fs::log_hash()); fin.u64(acc.oh.h); r.hash = fin.h;
        Json s = Json::object(); s["units"] = m.units; s["wells"] = static_cast<long long>(m.wells.size()); s["groups"] = static_cast<long long>(m.gruptree.size()); s["report_steps"] = m.nsteps();
        s["ministeps"] = static_cast<long long>(w ? w->ministeps_done : 0); s["firings"] = static_cast<long long>(w ? w->firings.size() : 0); s["comparisons"] = static_cast<long long>(acc.comparisons); s["max_rel_diff"] = acc.max_rel;
        r.sample = s;
        for (auto& kv : fs::counters()) r.counters[kv.first] += kv.second;
        w.reset();
        fs::end_run(true);
        return r;
    }
};

} // namespace

int main(int argc, char** argv) { C09 sc; return sim::worker_main(argc, argv, sc); }
