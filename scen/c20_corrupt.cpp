// S-CORRUPT — C20: parsing, state construction and result-file readers never crash (DESIGN 5/C20).
// The inputs are files the system itself wrote (restart, summary, ESMRY, INIT, EGRID, RFT; formatted and unformatted) and
// decks (generated and shipped) after a storage fault - torn write / truncation, lost, duplicated or misdirected 512-byte
// sector, bit rot, overwritten count field - delivered through the file layer, plus token/line mutations of decks (seeded
// mutation testing, stated as such).  Oracle: the worker survives: no signal, no sanitizer report, no std::terminate, no
// exception that is not derived from std::exception, CPU time within the bound.
#include "../simcore/runner.hpp"
#include "srun/driver.hpp"

#include <opm/common/utility/TimeService.hpp>
#include <opm/input/eclipse/EclipseState/Grid/EclipseGrid.hpp>
#include <opm/input/eclipse/Parser/Parser.hpp>
#include <opm/io/eclipse/EGrid.hpp>
#include <opm/io/eclipse/EInit.hpp>
#include <opm/io/eclipse/ERft.hpp>
#include <opm/io/eclipse/ERst.hpp>
#include <opm/io/eclipse/ESmry.hpp>
#include <opm/io/eclipse/EclFile.hpp>
#include <opm/io/eclipse/EclOutput.hpp>
#include <opm/io/eclipse/ExtESmry.hpp>
#include <opm/io/eclipse/OutputStream.hpp>

#include <algorithm>
#include <csignal>
#include <cstring>
#include <new>
#include <sstream>
#include <sys/time.h>
#include <unistd.h>

using namespace sim;
using namespace srun;
namespace EclIO = Opm::EclIO;
namespace OS = Opm::EclIO::OutputStream;

// ---- allocation cap: a corrupted element count must surface as std::bad_alloc / length_error, not as an allocator abort
static const std::size_t kAllocCap = std::size_t(2) << 30;
void* operator new(std::size_t n) { if (n > kAllocCap) throw std::bad_alloc(); void* p = std::malloc(n ? n : 1); if (!p) throw std::bad_alloc(); return p; }
void* operator new[](std::size_t n) { return operator new(n); }
void operator delete(void* p) noexcept { std::free(p); }
void operator delete[](void* p) noexcept { std::free(p); }
void operator delete(void* p, std::size_t) noexcept { std::free(p); }
void operator delete[](void* p, std::size_t) noexcept { std::free(p); }

namespace {

using Json = sim::Json;

const int kCpuLimitSeconds = 20;
extern "C" void __sanitizer_print_stack_trace(void);
extern "C" void on_cpu_limit(int) { const char m[] = "TERMINATE: CPU time bound exceeded (possible hang)\n"; ssize_t r = ::write(2, m, sizeof m - 1); (void)r; __sanitizer_print_stack_trace(); _exit(76); }
void arm_cpu_limit(int seconds) { struct itimerval it; std::memset(&it, 0, sizeof it); it.it_value.tv_sec = seconds; setitimer(ITIMER_VIRTUAL, &it, nullptr); }

// ---- storage-fault operators on a byte image
std::string apply_op(const std::string& in, const Json& op, const std::string& donor) {
    std::string b = in;
    const std::string k = op.gets("kind");
    const double f = op.getd("pos");
    const size_t n = b.size();
    auto at = [&](size_t len) { return n > len ? static_cast<size_t>(f * static_cast<double>(n - len)) : 0; };
    const size_t S = 512;
    if (k == "truncate") b.resize(at(0));
    else if (k == "bitflip" && n) { size_t o = at(1); b[o] = static_cast<char>(b[o] ^ (1 << (op.geti("arg") & 7))); }
    else if (k == "zero_sector" && n) { size_t o = at(0) / S * S; for (size_t q = o; q < std::min(n, o + S); ++q) b[q] = 0; }
    else if (k == "dup_sector" && n) { size_t o = at(0) / S * S; b.insert(o, b.substr(o, std::min(S, n - o))); }
    else if (k == "drop_sector" && n) { size_t o = at(0) / S * S; b.erase(o, std::min(S, n - o)); }
    else if (k == "splice_sector" && n && !donor.empty()) { size_t o = at(0) / S * S; size_t d = (static_cast<size_t>(op.geti("arg")) * S) % donor.size() / S * S; std::string sec = donor.substr(d, std::min(S, donor.size() - d)); b.replace(o, std::min(sec.size(), n - o), sec); }
    else if (k == "set_word" && n >= 4) { size_t o = at(4) / 4 * 4; static const unsigned vals[] = {0u, 1u, 0x7fffffffu, 0xffffffffu, 0x80000000u, 16u, 4000u, 0x00100000u, 1000000u}; unsigned v = vals[static_cast<size_t>(op.geti("arg")) % 9]; b[o] = static_cast<char>(v >> 24); b[o + 1] = static_cast<char>(v >> 16); b[o + 2] = static_cast<char>(v >> 8); b[o + 3] = static_cast<char>(v); }
    else if (k == "set_count" && n >= 24) {
        // overwrite the element count of the array header nearest to pos (unformatted: 4 bytes at header+12) with a boundary value
        size_t o = at(24); size_t best = std::string::npos;
        for (size_t q = o; q + 24 <= n && q < o + 65536; ++q) if (b[q] == 0 && b[q + 1] == 0 && b[q + 2] == 0 && b[q + 3] == 16 && b[q + 20] == 0 && b[q + 23] == 16) { best = q; break; }
        if (best != std::string::npos) { static const unsigned vals[] = {0u, 1u, 0x7fffffffu, 0xffffffffu, 999u, 1001u, 0x40000000u, 105u, 106u}; unsigned v = vals[static_cast<size_t>(op.geti("arg")) % 9]; b[best + 12] = static_cast<char>(v >> 24); b[best + 13] = static_cast<char>(v >> 16); b[best + 14] = static_cast<char>(v >> 8); b[best + 15] = static_cast<char>(v); }
    }
    // ---- deck (text) operators
    else if (k == "line_drop" || k == "line_dup" || k == "line_swap") {
        std::vector<std::string> lines; { std::istringstream is(b); std::string l; while (std::getline(is, l)) lines.push_back(l); }
        if (!lines.empty()) { size_t o = static_cast<size_t>(f * static_cast<double>(lines.size() - 1));
            if (k == "line_drop") lines.erase(lines.begin() + static_cast<long>(o)); else if (k == "line_dup") lines.insert(lines.begin() + static_cast<long>(o), lines[o]); else if (o + 1 < lines.size()) std::swap(lines[o], lines[o + 1]); }
        b.clear(); for (auto& l : lines) { b += l; b += '\n'; }
    } else if (k == "token_drop" || k == "token_replace" || k == "token_insert") {
        // tokens = maximal runs of non-blank characters
        std::vector<std::pair<size_t, size_t>> toks; size_t p = 0;
        while (p < n) { while (p < n && std::isspace(static_cast<unsigned char>(b[p]))) ++p; size_t q = p; while (q < n && !std::isspace(static_cast<unsigned char>(b[q]))) ++q; if (q > p) toks.push_back({p, q - p}); p = q; }
        if (!toks.empty()) {
            auto t = toks[static_cast<size_t>(f * static_cast<double>(toks.size() - 1))];
            static const char* repl[] = {"/", "1*", "-1", "0", "1e400", "'", "'X'", "99999999999", "*", "2*", "--", "ACTIONX", "ENDACTIO", "TSTEP", "1.5.5", "\xff\xfe", "INCLUDE", "'?'", "3*1e-320", "/ /"};
            const std::string rp = repl[static_cast<size_t>(op.geti("arg")) % 20];
            if (k == "token_drop") b.erase(t.first, t.second); else if (k == "token_replace") b.replace(t.first, t.second, rp); else b.insert(t.first, rp + " ");
        }
    } else if (k == "num_replace" || k == "rec_drop" || k == "name_replace" || k == "snip_num" || k == "snip_name" || k == "snip_rec_drop") {
        // structure-aware: the deck stays syntactically well formed, one value / record / name becomes implausible
        std::vector<std::string> lines; { std::istringstream is(b); std::string l; while (std::getline(is, l)) lines.push_back(l); }
        const size_t sched = [&] { for (size_t q = 0; q < lines.size(); ++q) if (lines[q].rfind("SCHEDULE", 0) == 0) return q; return size_t(0); }();
        const bool snip = k.rfind("snip_", 0) == 0;                   // aimed at the inserted keyword-family snippets (between the marker comments)
        const std::string kk = k == "snip_num" ? "num_replace" : k == "snip_name" ? "name_replace" : k == "snip_rec_drop" ? "rec_drop" : k;
        std::vector<size_t> snip_lines; { bool in = false; for (size_t q = 0; q < lines.size(); ++q) { if (lines[q].rfind("-- SNIP-BEGIN", 0) == 0) in = true; else if (lines[q].rfind("-- SNIP-END", 0) == 0) in = false; else if (in) snip_lines.push_back(q); } }
        const size_t lo = snip ? 0 : (op.geti("arg") & 1) ? sched : 0;          // half of them aimed at the SCHEDULE section
        if (snip && snip_lines.empty()) { /* nothing to aim at */ }
        else if (lines.size() > lo + 1) {
            const size_t o = snip ? snip_lines[static_cast<size_t>(f * static_cast<double>(snip_lines.size() - 1) + 0.5)] : lo + static_cast<size_t>(f * static_cast<double>(lines.size() - lo - 1));
            auto is_num = [](const std::string& t) { if (t.empty()) return false; char* e = nullptr; std::strtod(t.c_str(), &e); return e && *e == 0; };
            // search forward (wrapping) for a line the operator applies to
            for (size_t d = 0; d < lines.size() - lo; ++d) {
                const size_t li = lo + (o - lo + d) % (lines.size() - lo);
                if (snip && !std::binary_search(snip_lines.begin(), snip_lines.end(), li)) continue;
                std::string& l = lines[li];
                if (l.rfind("--", 0) == 0) continue;
                std::vector<std::pair<size_t, size_t>> toks; size_t p = 0;
                while (p < l.size()) { while (p < l.size() && std::isspace(static_cast<unsigned char>(l[p]))) ++p; size_t q = p; while (q < l.size() && !std::isspace(static_cast<unsigned char>(l[q]))) ++q; if (q > p) toks.push_back({p, q - p}); p = q; }
                if (kk == "rec_drop") { if (toks.size() >= 2 && l.substr(toks.back().first, toks.back().second) == "/") { l.clear(); break; } continue; }
                std::vector<size_t> cand;
                for (size_t t = 0; t < toks.size(); ++t) { const std::string tk = l.substr(toks[t].first, toks[t].second); if (kk == "num_replace" ? is_num(tk) : (tk.size() >= 3 && tk.front() == '\'' && tk.back() == '\'')) cand.push_back(t); }
                if (cand.empty()) continue;
                const auto t = toks[cand[static_cast<size_t>(op.geti("arg") / 2) % cand.size()]];
                static const char* nums[] = {"0", "-1", "1", "2", "1000000", "1e20", "-5", "0.0", "1*", "99", "1e-30", "3", "7", "12", "9999"};
                static const char* names[] = {"'*'", "'NOSUCH'", "''", "'FIELD'", "'?'", "'P*'", "'OPEN'", "'G1'", "'W1'", "'12345678'"};
                l.replace(t.first, t.second, kk == "num_replace" ? nums[static_cast<size_t>(op.geti("arg") / 7) % 15] : names[static_cast<size_t>(op.geti("arg") / 7) % 10]);
                break;
            }
        }
        b.clear(); for (auto& l : lines) { b += l; b += '\n'; }
    } else if (k == "splice_text" && !donor.empty() && n) { size_t o = at(0); size_t d = static_cast<size_t>(op.geti("arg")) % donor.size(); b.insert(o, donor.substr(d, std::min<size_t>(400, donor.size() - d))); }
    return b;
}

// ---- consumers.  Every public read path of a reader is walked; std::exception is an accepted outcome.
template <class F> bool guarded(RunResult& r, const std::string& who, F f) {
    try { f(); return true; }
    catch (const std::exception&) { ++r.counters["outcome.std_exception"]; return false; }
    catch (...) { r.fail("C20.foreign_exception." + who, who + " threw something that is not derived from std::exception"); return false; }
}

void consume_eclfile(RunResult& r, const std::string& file, Hash64& oh) {
    guarded(r, "EclFile", [&] {
        EclIO::EclFile f(file);
        auto list = f.getList();
        oh.u64(list.size());
        for (size_t k = 0; k < list.size(); ++k) guarded(r, "EclFile.get", [&] {
            int ik = static_cast<int>(k);
            switch (std::get<1>(list[k])) {
            case EclIO::INTE: oh.u64(f.get<int>(ik).size()); break; case EclIO::REAL: oh.u64(f.get<float>(ik).size()); break; case EclIO::DOUB: oh.u64(f.get<double>(ik).size()); break;
            case EclIO::LOGI: oh.u64(f.get<bool>(ik).size()); break; case EclIO::CHAR: case EclIO::C0NN: oh.u64(f.get<std::string>(ik).size()); break; default: break; }
        });
        guarded(r, "EclFile.loadData", [&] { EclIO::EclFile g(file, true); oh.u64(g.size()); });
    });
}
void consume_erst(RunResult& r, const std::string& file, Hash64& oh) {
    guarded(r, "ERst", [&] {
        EclIO::ERst rst(file);
        for (int s : rst.listOfReportStepNumbers()) {
            guarded(r, "ERst.list", [&] {
                for (auto& e : rst.listOfRstArrays(s)) guarded(r, "ERst.get", [&] {
                    const auto& nm = std::get<0>(e);
                    switch (std::get<1>(e)) { case EclIO::INTE: oh.u64(rst.getRestartData<int>(nm, s, 0).size()); break; case EclIO::REAL: oh.u64(rst.getRestartData<float>(nm, s, 0).size()); break;
                        case EclIO::DOUB: oh.u64(rst.getRestartData<double>(nm, s, 0).size()); break; case EclIO::LOGI: oh.u64(rst.getRestartData<bool>(nm, s, 0).size()); break;
                        case EclIO::CHAR: oh.u64(rst.getRestartData<std::string>(nm, s, 0).size()); break; default: break; }
                });
            });
            guarded(r, "ERst.loadStep", [&] { rst.loadReportStepNumber(s); });
        }
    });
}
void consume_esmry(RunResult& r, const std::string& smspec, Hash64& oh) {
    guarded(r, "ESmry", [&] {
        EclIO::ESmry s(smspec, false);
        oh.u64(s.numberOfTimeSteps());
        guarded(r, "ESmry.vectlist", [&] { auto kl = s.keywordList(); std::vector<std::string> sub; for (size_t k = 0; k < kl.size(); k += 1 + kl.size() / 8) sub.push_back(kl[k]); s.loadData(sub); for (auto& k : sub) oh.u64(s.get(k).size()); });
        guarded(r, "ESmry.loadData", [&] { s.loadData(); for (auto& k : s.keywordList()) oh.u64(s.get(k).size()); (void)s.dates(); for (auto& k : s.keywordList()) { (void)s.get_at_rstep(k); break; } });
        guarded(r, "ESmry.make_esmry_file", [&] { EclIO::ESmry c(smspec, false); if (c.make_esmry_file()) { std::string e = smspec.substr(0, smspec.rfind('.')) + ".ESMRY"; guarded(r, "ExtESmry", [&] { EclIO::ExtESmry x(e, false); x.loadData(); oh.u64(x.numberOfTimeSteps()); }); } });
    });
    guarded(r, "ESmry.base", [&] { EclIO::ESmry s(smspec, true); s.loadData(); oh.u64(s.numberOfTimeSteps()); });
}
void consume_ext(RunResult& r, const std::string& file, Hash64& oh) {
    guarded(r, "ExtESmry", [&] { EclIO::ExtESmry x(file, false); x.loadData(); oh.u64(x.numberOfTimeSteps()); for (auto& k : x.keywordList()) oh.u64(x.get(k).size()); (void)x.dates(); });
}
void consume_egrid(RunResult& r, const std::string& file, Hash64& oh) {
    guarded(r, "EGrid", [&] { EclIO::EGrid g(file); oh.u64(static_cast<std::uint64_t>(g.activeCells())); g.load_grid_data(); g.load_nnc_data(); (void)g.get_nnc_ijk();
        const int tot = g.totalNumberOfCells(); std::array<double, 8> X, Y, Z; for (int c = 0; c < std::min(tot, 200); ++c) g.getCellCorners(c, X, Y, Z); });
    guarded(r, "EclipseGrid.file", [&] { Opm::EclipseGrid g(file); oh.u64(g.getNumActive()); for (size_t c = 0; c < std::min<size_t>(g.getCartesianSize(), 200); ++c) oh.dbl(g.getCellVolume(c)); });
}
void consume_init(RunResult& r, const std::string& file, Hash64& oh) { guarded(r, "EInit", [&] { EclIO::EInit i(file); oh.u64(i.list_arrays().size()); }); consume_eclfile(r, file, oh); }
void consume_rft(RunResult& r, const std::string& file, Hash64& oh) { guarded(r, "ERft", [&] { EclIO::ERft f(file); oh.u64(static_cast<std::uint64_t>(f.numberOfReports())); for (auto& rp : f.listOfRftReports()) guarded(r, "ERft.arrays", [&] { for (auto& a : f.listOfRftArrays(std::get<0>(rp), std::get<1>(rp))) (void)a; }); }); consume_eclfile(r, file, oh); }
void consume_deck(RunResult& r, const std::string& text, Hash64& oh) {
    guarded(r, "Parser", [&] {
        Opm::Parser parser;
        auto deck = parser.parseString(text);
        oh.u64(deck.size()); ++r.counters["outcome.deck_accepted_by_parser"];
        guarded(r, "EclipseState", [&] {
            Opm::EclipseState es(deck);
            guarded(r, "Schedule", [&] {
                Opm::Schedule sched(deck, es, std::make_shared<Opm::Python>());
                oh.u64(sched.size()); ++r.counters["outcome.schedule_built"];
                guarded(r, "SummaryConfig", [&] { Opm::SummaryConfig sc(deck, sched, es.fieldProps(), es.aquifer()); oh.u64(sc.size()); });
            });
        });
    });
}

// ---- corpus producers
void write_rst_corpus(Rng& g, bool fmt) {
    int steps = static_cast<int>(g.range(1, 3));
    for (int s = 1; s <= steps; ++s) {
        OS::Restart rst{OS::ResultSet{".", "CASE"}, s, OS::Formatted{fmt}, OS::Unified{true}};
        rst.write("INTEHEAD", std::vector<int>(static_cast<size_t>(g.range(3, 40)), s));
        rst.write("LOGIHEAD", std::vector<bool>(static_cast<size_t>(g.range(1, 30)), true));
        rst.write("DOUBHEAD", std::vector<double>(static_cast<size_t>(g.range(1, 30)), 1.5 * s));
        if (g.chance(0.5)) rst.write("ZWEL", std::vector<std::string>(static_cast<size_t>(g.range(1, 120)), "W" + std::to_string(s)));
        rst.message("STARTSOL");
        rst.write("PRESSURE", std::vector<float>(static_cast<size_t>(g.chance(0.3) ? g.range(999, 2100) : g.range(1, 60)), 100.0f + s));
        rst.message("ENDSOL");
    }
}
void write_smry_corpus(Rng& g, bool fmt, bool unif) {
    OS::ResultSet rset{".", "CASE"};
    const auto start = Opm::TimeService::from_time_t(Opm::asTimeT(Opm::TimeStampUTC(2021, 5, 2)));
    OS::SummarySpecification spec{rset, OS::Formatted{fmt}, OS::SummarySpecification::UnitConvention::Metric, {3, 3, 2}, OS::SummarySpecification::RestartSpecification{"", 0}, start};
    OS::SummarySpecification::Parameters par; par.add("TIME", ":+:+:+:+", 0, "DAYS");
    int nv = static_cast<int>(g.chance(0.2) ? g.range(998, 1010) : g.range(1, 30));
    for (int v = 1; v < nv; ++v) par.add("WOPR", "W" + std::to_string(v), 0, "SM3/DAY");
    std::unique_ptr<EclIO::EclOutput> st; int ms = 0;
    for (int r = 1; r <= static_cast<int>(g.range(1, 3)); ++r) {
        spec.write(par);
        if (!unif || !st) st = OS::createSummaryFile(rset, r, OS::Formatted{fmt}, OS::Unified{unif});
        st->write("SEQHDR", std::vector<int>{r});
        for (int q = 0; q < static_cast<int>(g.range(1, 3)); ++q) { std::vector<float> row(static_cast<size_t>(nv), static_cast<float>(ms)); row[0] = static_cast<float>(ms + 1); st->write("MINISTEP", std::vector<int>{ms}); st->write("PARAMS", row); ++ms; }
        st->flushStream();
    }
}

// ---- keyword families beyond the model generator: self-contained snippets inserted into a generated deck before it is damaged.
// Placeholders: {NX} {NY} {NZ} {N} (cell count) {NXY} {W} (first well) {G} (first group below FIELD, or FIELD)
struct Snippet { const char* section; const char* text; };
const std::vector<Snippet>& snippets() {
    static const std::vector<Snippet> v = {
        {"GRID", "FAULTS\n 'F1' 1 1 1 {NY} 1 {NZ} 'X' /\n 'F2' 1 {NX} 1 1 1 {NZ} 'Y' /\n/\nMULTFLT\n 'F1' 0.5 /\n 'F2' 0.1 /\n/\n"},
        {"GRID", "EQUALS\n 'PORO' 0.2 1 {NX} 1 {NY} 1 1 /\n 'PERMX' 50 /\n/\n"},
        {"GRID", "MULTIPLY\n 'PERMZ' 2.0 1 {NX} 1 {NY} 1 {NZ} /\n/\nCOPY\n 'PERMX' 'PERMY' /\n/\n"},
        {"GRID", "BOX\n 1 {NX} 1 {NY} 1 1 /\nMULTZ\n {NXY}*0.5 /\nENDBOX\n"},
        {"GRID", "NNC\n 1 1 1 {NX} {NY} {NZ} 0.5 /\n/\n"},
        {"GRID", "MINPV\n 0.001 /\nPINCH\n 0.001 'GAP' 1* 'TOPBOT' 'TOP' /\n"},
        {"GRID", "NTG\n {N}*0.9 /\nMULTX\n {N}*1.5 /\nMULTY-\n {N}*0.7 /\n"},
        {"GRID", "MAPAXES\n 0 100 0 0 100 0 /\nMAPUNITS\n 'METRES' /\nGRIDUNIT\n 'METRES' /\n"},
        {"SCHEDULE", "RPTRST\n 'BASIC=3' 'FREQ=2' /\n"},
        {"SCHEDULE", "RPTRST\n 'BASIC=5' 'FREQ=1' 'ALLPROPS' /\nRPTSCHED\n 'FIP=2' 'WELLS=1' 'RESTART=2' /\n"},
        {"SCHEDULE", "WLIST\n '*LST1' 'NEW' '{W}' /\n/\nWELOPEN\n '*LST1' 'OPEN' /\n/\n"},
        {"SCHEDULE", "VFPPROD\n 1 2000 'OIL' 'WCT' 'GOR' 'THP' ' ' 1* 'BHP' /\n 1 10 /\n 10 20 /\n 0 0.5 /\n 100 200 /\n 0 /\n 1 1 1 1 50 60 /\n 2 1 1 1 55 65 /\n 1 2 1 1 51 61 /\n 2 2 1 1 56 66 /\n 1 1 2 1 52 62 /\n 2 1 2 1 57 67 /\n 1 2 2 1 53 63 /\n 2 2 2 1 58 68 /\n"},
        {"SCHEDULE", "VFPINJ\n 2 2000 'WAT' 'THP' 1* 'BHP' /\n 1 10 /\n 10 20 /\n 1 100 110 /\n 2 120 130 /\n"},
        {"SCHEDULE", "GCONINJE\n 'FIELD' 'WATER' 'RATE' 1000 /\n/\nGCONPROD\n '{G}' 'ORAT' 500 3* 'RATE' /\n/\n"},
        {"SCHEDULE", "LIFTOPT\n 12500 5E-3 0.0 'YES' /\nWLIFTOPT\n '{W}' 'YES' 150000 1.01 1.0 /\n/\nGLIFTOPT\n '{G}' 200000 1* /\n/\n"},
        {"SCHEDULE", "WRFTPLT\n '{W}' 'YES' 'NO' 'NO' /\n/\nWRFT\n/\n"},
        {"SCHEDULE", "TUNING\n 1 10 /\n /\n /\nNEXTSTEP\n 0.5 /\nDRSDT\n 0.003 /\n"},
        {"SCHEDULE", "GUIDERAT\n 0 'OIL' 1 0.5 1 1 0 0 'YES' 0.5 /\nWGRUPCON\n '{W}' 'YES' 0.5 'OIL' /\n/\n"},
        {"SCHEDULE", "GCONSUMP\n '{G}' 10 /\n/\nGECON\n '{G}' 10 /\n/\n"},
        {"SCHEDULE", "COMPORD\n '{W}' 'INPUT' /\n/\nWPAVE\n 0.5 1.0 'WELL' 'OPEN' /\nWELPI\n '{W}' 10 /\n/\n"},
        {"SCHEDULE", "COMPLUMP\n '{W}' 1* 1* 1* 1* 1 /\n/\nWPIMULT\n '{W}' 1.5 /\n/\nCOMPDAT\n '{W}' 1* 1* 1 1 'SHUT' /\n/\n"},
        {"SCHEDULE", "WTEST\n '{W}' 10 'PE' 3 /\n/\nWECON\n '{W}' 1 1* 0.9 2* 'WELL' /\n/\nWELSPECS\n 'NEWW' '{G}' 1 1 1* 'OIL' /\n/\n"},
        {"SCHEDULE", "GRUPNET\n 'FIELD' 20 5* /\n/\nWVFPEXP\n '{W}' 'EXP' /\n/\nWTMULT\n '{W}' 'ORAT' 0.5 /\n/\n"},
    };
    return v;
}
std::string with_snippets(const std::string& deck, const Model& m, const Json& picks) {
    if (picks.is_null() || picks.size() == 0) return deck;
    auto fill = [&](std::string t) {
        auto rep = [&](const std::string& k, const std::string& v) { for (size_t q = t.find(k); q != std::string::npos; q = t.find(k, q + v.size())) t.replace(q, k.size(), v); };
        std::string grp = "FIELD"; for (auto& g : m.gruptree) if (g.second == "FIELD") { grp = g.first; break; }
        rep("{NXY}", std::to_string(m.nx * m.ny)); rep("{NX}", std::to_string(m.nx)); rep("{NY}", std::to_string(m.ny)); rep("{NZ}", std::to_string(m.nz)); rep("{N}", std::to_string(m.nx * m.ny * m.nz));
        rep("{U}", m.units); rep("{W}", m.wells.empty() ? "W" : m.wells[0].name); rep("{G}", grp);
        return t;
    };
    std::string grid, sched;
    for (size_t k = 0; k < picks.size(); ++k) { const auto& sn = snippets()[static_cast<size_t>(picks[k].as_i()) % snippets().size()]; (std::string(sn.section) == "GRID" ? grid : sched) += "-- SNIP-BEGIN\n" + fill(sn.text) + "-- SNIP-END\n"; }
    std::string out = deck;
    if (!grid.empty()) { size_t q = out.find("\nPROPS\n"); if (q != std::string::npos) out.insert(q + 1, grid); }
    if (!sched.empty()) {
        size_t s0 = out.find("\nSCHEDULE\n"); size_t q = std::string::npos;
        if (s0 != std::string::npos) { size_t a = out.find("\nTSTEP\n", s0), b = out.find("\nDATES\n", s0); q = std::min(a, b); }
        if (q != std::string::npos) out.insert(q + 1, sched); else out += sched;
    }
    return out;
}

struct C20 : Scenario {
    std::string id() const override { return "C20"; }
    std::vector<std::string> shipped;
    C20() { fs::passthrough(true); for (auto& n : fs::listdir("/repo/tests")) if (n.size() > 5 && n.substr(n.size() - 5) == ".DATA") { std::string t = fs::slurp("/repo/tests/" + n); if (t.size() > 200 && t.size() < 1000000 && t.find("INCLUDE") == std::string::npos && t.find("IMPORT") == std::string::npos) shipped.push_back(n); } fs::passthrough(false); }
    Json describe() override { Json j = Json::object(); j["scenario"] = "S-CORRUPT"; j["real_vs_stub"] = describe_real_vs_stub();
        j["consumers"] = "Parser::parseString -> EclipseState -> Schedule -> SummaryConfig; EclFile (+every array, preload), ERst (+every step/array), ESmry (whole file, vector list, base run, make_esmry_file) / ExtESmry, EGrid + EclipseGrid(file), EInit, ERft";
        j["alloc_cap_bytes"] = static_cast<long long>(kAllocCap); j["cpu_bound_seconds"] = kCpuLimitSeconds; j["shipped_decks"] = static_cast<long long>(shipped.size()); return j; }

    Json generate(Rng& rng, const std::string&, std::uint64_t run) override {
        Json p = Json::object(); p["scenario"] = "S-CORRUPT";
        static const char* kinds[] = {"rst", "smry", "run", "deck", "run", "deck", "shipped", "rst"};
        const std::string kind = kinds[mix64(run ^ 0xC20) % 8];      // not run % 8: a worker handles every W-th run index and must see every kind
        p["kind"] = kind; p["corpus_seed"] = static_cast<long long>(rng.next() >> 8); p["formatted"] = rng.chance(0.35); p["unified"] = rng.chance(0.6);
        if (kind == "run" || kind == "deck") { GenOpts o; o.max_steps = 3; o.max_actions = 2; o.max_udq = 1; o.esmry = true; o.stop_safe = true; p["model_seed"] = static_cast<long long>(rng.next() >> 8); p["gen"] = o.to_json(); p["physics_seed"] = 5; }
        if (kind == "shipped") p["deck_pick"] = static_cast<long long>(rng.below(1000));
        if (kind == "deck") { Json sn = Json::array(); int ns = static_cast<int>(rng.below(4)); for (int k = 0; k < ns; ++k) sn.push(static_cast<long long>(rng.below(1000))); p["snippets"] = sn; }
        p["file_pick"] = static_cast<long long>(rng.below(1000));
        Json ops = Json::array(); int no = static_cast<int>(rng.range(1, 4));
        const bool text = kind == "deck" || kind == "shipped";
        static const char* bops[] = {"truncate", "bitflip", "zero_sector", "dup_sector", "drop_sector", "splice_sector", "set_word", "set_count", "set_count", "truncate"};
        static const char* tops[] = {"token_drop", "token_replace", "token_insert", "line_drop", "line_dup", "line_swap", "splice_text", "bitflip", "truncate", "token_replace",
                                     "num_replace", "num_replace", "num_replace", "rec_drop", "rec_drop", "name_replace", "name_replace", "num_replace"};
        static const char* sops[] = {"snip_num", "snip_num", "snip_num", "snip_name", "snip_rec_drop"};
        const bool has_snips = p.has("snippets") && p.at("snippets").size() > 0;
        for (int k = 0; k < no; ++k) { Json o = Json::object(); o["kind"] = text ? (has_snips && rng.chance(0.5) ? sops[rng.below(5)] : tops[rng.below(18)]) : bops[rng.below(10)]; o["pos"] = rng.unit(); o["arg"] = static_cast<long long>(rng.below(100000)); ops.push(o); }
        p["ops"] = ops;
        return p;
    }
    std::vector<Json> shrink(const Json& plan) override { std::vector<Json> out; shrink_array(plan, "ops", out, 0); if (plan.has("snippets")) shrink_array(plan, "snippets", out, 0); return out; }

    RunResult execute(const Json& plan) override {
        RunResult r;
        const std::string root = getenv("VERIF_RUNDIR") ? getenv("VERIF_RUNDIR") : "/dev/shm/verif.run";
        fs::begin_run(root);
        Hash64 oh, sh;
        const std::string kind = plan.gets("kind");
        Rng g(static_cast<std::uint64_t>(plan.geti("corpus_seed")));
        const bool fmt = plan.getb("formatted"), unif = plan.getb("unified");
        sh.str(kind); sh.u64(fmt);
        for (size_t k = 0; k < plan.at("ops").size(); ++k) sh.str(plan.at("ops")[k].gets("kind"));
        std::string victim, victim_class; Json sample = Json::object(); sample["kind"] = kind;
        arm_cpu_limit(kCpuLimitSeconds);
        try {
            if (kind == "deck" || kind == "shipped") {
                std::string text, donor;
                if (kind == "deck") { Model m = generate_model(static_cast<std::uint64_t>(plan.geti("model_seed")), GenOpts::from_json(plan.at("gen"))); text = with_snippets(deck_text(m), m, plan.has("snippets") ? plan.at("snippets") : Json()); donor = text; r.counters["snippets_inserted"] += plan.has("snippets") ? static_cast<long>(plan.at("snippets").size()) : 0; }
                else { fs::passthrough(true); const std::string n = shipped.empty() ? "" : shipped[static_cast<size_t>(plan.geti("deck_pick")) % shipped.size()]; text = n.empty() ? "RUNSPEC\n" : fs::slurp("/repo/tests/" + n); donor = shipped.size() > 1 ? fs::slurp("/repo/tests/" + shipped[(static_cast<size_t>(plan.geti("deck_pick")) + 7) % shipped.size()]) : text; fs::passthrough(false); sample["deck"] = n; }
                for (size_t k = 0; k < plan.at("ops").size(); ++k) text = apply_op(text, plan.at("ops")[k], donor);
                sh.str("deck"); victim_class = "DECK";
                consume_deck(r, text, oh);
            } else {
                // ---- produce the corpus with the real writers
                if (kind == "rst") write_rst_corpus(g, fmt);
                else if (kind == "smry") write_smry_corpus(g, fmt, unif);
                else {
                    Model m = generate_model(static_cast<std::uint64_t>(plan.geti("model_seed")), GenOpts::from_json(plan.at("gen")));
                    RunCfg cfg; cfg.physics_seed = 5; cfg.esmry = !m.fmtout; cfg.base = "CASE"; cfg.wall_advance = {20.0};
                    auto w = World::create(deck_text(m), cfg); w->write_initial(); w->run(1, w->last_step(), nullptr); w.reset();
                }
                auto files = fs::listdir(".");
                if (files.empty()) { fs::end_run(true); r.nontrivial = false; return r; }
                victim = files[static_cast<size_t>(plan.geti("file_pick")) % files.size()];
                victim_class = fs::classify(victim);
                const std::string donor = fs::slurp(files[(static_cast<size_t>(plan.geti("file_pick")) + 1) % files.size()]);
                std::string bytes = fs::slurp(victim);
                for (size_t k = 0; k < plan.at("ops").size(); ++k) bytes = apply_op(bytes, plan.at("ops")[k], donor);
                fs::spit(victim, bytes);
                sample["file"] = victim; sample["bytes"] = static_cast<long long>(bytes.size());
                sh.str(victim_class);
                // ---- consumers by file class
                const std::string base = victim.substr(0, victim.rfind('.'));
                if (victim_class == "UNRST" || victim_class == "X") { consume_erst(r, victim, oh); consume_eclfile(r, victim, oh); }
                else if (victim_class == "SMSPEC" || victim_class == "UNSMRY" || victim_class == "S") consume_esmry(r, base.substr(0, base.find('.')) + (fmt || victim.find(".F") != std::string::npos || victim.find(".A") != std::string::npos ? ".FSMSPEC" : ".SMSPEC"), oh), consume_eclfile(r, victim, oh);
                else if (victim_class == "ESMRY") consume_ext(r, victim, oh);
                else if (victim_class == "EGRID") { consume_egrid(r, victim, oh); consume_eclfile(r, victim, oh); }
                else if (victim_class == "INIT") consume_init(r, victim, oh);
                else if (victim_class == "RFT") consume_rft(r, victim, oh);
                else consume_eclfile(r, victim, oh);
                // (restart LOADING from a damaged file - RstState::load / Schedule(..., rst) - is not among the operations the
                //  statement lists and is not exercised here; see DESIGN 11.7)
            }
        } catch (const std::exception& e) { ++r.counters["outcome.corpus_producer_threw"]; }
        arm_cpu_limit(0);
        ++r.counters["class." + victim_class];
        for (size_t k = 0; k < plan.at("ops").size(); ++k) ++r.counters["fault." + plan.at("ops")[k].gets("kind")];
        for (auto& kv : fs::counters()) r.counters[kv.first] += kv.second;
        r.nontrivial = true; r.shape = sh.h ^ mix64(static_cast<std::uint64_t>(plan.geti("corpus_seed")));
        Hash64 fin; fin.u64(oh.h); r.hash = fin.h; r.sample = sample;
        fs::end_run(true);
        return r;
    }
};

} // namespace

int main(int argc, char** argv) { signal(SIGVTALRM, on_cpu_limit); C20 sc; return sim::worker_main(argc, argv, sc); }
