// C18 — ACTIONX conditions; count, wait and start limits (DESIGN 5/C18).
// kind "act" (S-ACT): long evaluation histories (thousands of (time, summary state) points with tiny and huge steps,
//                     several evaluations at one instant, evaluations before the start time, Action::State shipped
//                     through the Serializer in between) for the actions of a generated deck;
// kind "run" (S-RUN): the same refinement checks at every evaluation point of a full simulated run, where firing
//                     actions mutate the Schedule (well lists, status) under the driver's feet.
#include "../simcore/runner.hpp"
#include "srun/driver.hpp"
#include "srun/actref.hpp"

#include <opm/common/utility/MemPacker.hpp>
#include <opm/common/utility/Serializer.hpp>
#include <opm/input/eclipse/Schedule/Action/ActionContext.hpp>
#include <opm/input/eclipse/Schedule/Action/ActionX.hpp>
#include <opm/input/eclipse/Schedule/Action/Actions.hpp>
#include <opm/input/eclipse/Schedule/ScheduleState.hpp>

#include <cmath>
#include <sstream>

using namespace sim;
using namespace srun;

namespace {

using Json = sim::Json;

std::map<std::string, const ActionDef*> action_index(const Model& m) {
    std::map<std::string, const ActionDef*> ix;
    for (auto& a : m.actions0) ix[a.name] = &a;
    for (auto& s : m.steps) for (auto& a : s.actions) ix[a.name] = &a;
    return ix;
}

std::string join(const std::vector<std::string>& v) { std::string s; for (auto& x : v) s += x + ","; return s; }
std::string cond_text(const ActionDef& a) { std::string s; for (auto& c : a.cond) for (auto& t : c.tokens()) s += t + " "; return s; }

struct Checker {
    RunResult& r; const std::map<std::string, const ActionDef*>& ix; actref::Limits lim; Hash64 oh;
    long evals = 0; std::map<std::string, long> probes;
    std::map<std::string, std::vector<std::time_t>> fired;
    bool failed = false;
    void fail(const std::string& cls, const std::string& d) { if (!failed) r.fail(cls, d); failed = true; }

    // pending set
    void check_pending(const Opm::Action::Actions& acts, const Opm::Action::State& astate, std::time_t now, const std::string& where) {
        std::vector<std::string> real, ref;
        for (const auto* a : acts.pending(astate, now)) real.push_back(a->name());
        for (const auto& a : acts) {
            auto it = ix.find(a.name()); if (it == ix.end()) continue;
            const bool rdy = lim.ready(a.name(), static_cast<long>(a.max_run()), a.min_wait(), a.start_time(), now);
            if (std::fabs(a.min_wait() - it->second->min_wait) > 1e-6 * (1 + it->second->min_wait) || static_cast<long>(a.max_run()) != it->second->max_run) fail("C18.harness.limits_not_as_generated", "action " + a.name() + " reports max_run/min_wait different from the generated deck");
            if (rdy) ref.push_back(a.name());
            else {
                auto st = lim.s.find(a.name());
                const long cnt = st == lim.s.end() ? 0 : st->second.count;
                if (cnt >= static_cast<long>(a.max_run())) ++probes["probe.blocked_by_max_run"];
                else if (now < a.start_time()) ++probes["probe.blocked_before_start"];
                else ++probes["probe.blocked_by_min_wait"];
            }
        }
        std::sort(real.begin(), real.end()); std::sort(ref.begin(), ref.end());
        for (auto& n : real) oh.str(n);
        if (real != ref) fail("C18.pending", where + ": pending() returns [" + join(real) + "], the count/wait/start model gives [" + join(ref) + "]");
    }

    // one evaluation
    void check_eval(const Opm::Action::ActionX& a, const Opm::Action::Result& res, const Opm::SummaryState& st, const Opm::WListManager& wlm, const std::string& where) {
        auto it = ix.find(a.name()); if (it == ix.end()) return;
        ++evals;
        actref::Evaluator ev(st, wlm, it->second->cond);
        actref::Res ref;
        try { ref = ev.eval(); } catch (const std::exception& e) { fail("C18.harness.reference_threw", where + ": " + e.what()); return; }
        oh.u64(res.conditionSatisfied());
        if (res.conditionSatisfied() != ref.ok) {
            fail("C18.eval.truth", where + ": action " + a.name() + " condition [" + cond_text(*it->second) + "] evaluates to " + (res.conditionSatisfied() ? "true" : "false") + ", the documented semantics give " + (ref.ok ? "true" : "false"));
            return;
        }
        std::vector<std::string> real = res.matches().wells().asVector(), want;
        if (ref.wells) want.assign(ref.wells->begin(), ref.wells->end());
        std::sort(real.begin(), real.end());
        for (auto& w : real) oh.str(w);
        if (ref.ok && real != want) fail("C18.eval.wells", where + ": action " + a.name() + " condition [" + cond_text(*it->second) + "] matches wells [" + join(real) + "], the documented semantics give [" + join(want) + "]");
        if (!want.empty()) ++probes["probe.nonempty_match_set"];
        if (it->second->cond.size() >= 3) ++probes["probe.condition_with_3_or_more_comparisons"];
    }

    void on_fire(const Opm::Action::ActionX& a, std::time_t now) {
        auto it = ix.find(a.name()); if (it == ix.end()) return;
        // invariants over the event history, independent of the model's pending set
        auto& f = fired[a.name()];
        if (f.size() >= a.max_run()) fail("C18.limit.max_run", "action " + a.name() + " runs for the " + std::to_string(f.size() + 1) + ". time, max_run = " + std::to_string(a.max_run()));
        if (!f.empty() && a.min_wait() > 0 && std::difftime(now, f.back()) < a.min_wait()) { std::ostringstream o; o << "action " << a.name() << " runs " << std::difftime(now, f.back()) << " s after its previous run, min_wait = " << a.min_wait() << " s"; fail("C18.limit.min_wait", o.str()); }
        if (now < a.start_time()) fail("C18.limit.start_time", "action " + a.name() + " runs before its start time");
        if (!f.empty() && a.min_wait() > 0 && std::difftime(now, f.back()) == a.min_wait()) ++probes["probe.fires_at_exactly_min_wait"];
        f.push_back(now);
        lim.ran(a.name(), now);
    }
};

struct RunObs : Observer {
    Checker& c;
    explicit RunObs(Checker& cc) : c(cc) {}
    void before_actions(World& w, int r) override {
        const auto& acts = (*w.sched)[static_cast<size_t>(r)].actions.get();
        c.check_pending(acts, w.astate, w.sched->simTime(static_cast<size_t>(r)), "report step " + std::to_string(r));
    }
    void on_action_eval(World& w, int r, const Opm::Action::ActionX& a, const Opm::Action::Result& res) override {
        c.check_eval(a, res, *w.st, (*w.sched)[static_cast<size_t>(r)].wlist_manager.get(), "report step " + std::to_string(r));
        if (res.conditionSatisfied()) c.on_fire(a, w.sched->simTime(static_cast<size_t>(r)));
        // the pending set is computed once per step by the driver; re-check it after every firing as well
    }
};

struct C18 : Scenario {
    std::string id() const override { return "C18"; }
    Json describe() override { Json j = Json::object(); j["scenario"] = "S-ACT + S-RUN"; j["real_vs_stub"] = describe_real_vs_stub();
        j["oracle"] = "reference condition evaluator and count/wait/start model in scen/srun/actref.hpp, written from the statement"; return j; }

    Json generate(Rng& rng, const std::string& tier, std::uint64_t run) override {
        Json p = Json::object();
        p["scenario"] = run % 3 == 2 ? "S-RUN" : "S-ACT";
        GenOpts o; o.max_steps = 6; o.max_actions = 4; o.max_udq = 1; o.restart_safe_conditions = false; o.nested_parens = true; o.date_conditions = true; o.frac_dates = true; o.allow_msw = false;
        if (run % 5 < 2) { o.cond_well_bias = 0.8; o.max_wells = 6; o.min_wells = 3; }     // conditions dominated by well-pattern comparisons: exercises the matching-well set algebra
        p["kind"] = run % 3 == 2 ? "run" : "act";
        p["model_seed"] = static_cast<long long>(rng.next() >> 8);
        p["gen"] = o.to_json();
        p["physics_seed"] = static_cast<long long>(rng.next() >> 16);
        p["points"] = static_cast<long long>(tier == "thorough" ? rng.range(200, 2000) : rng.range(40, 300));
        p["eval_seed"] = static_cast<long long>(rng.next() >> 8);
        p["migrate_every"] = static_cast<long long>(rng.chance(0.5) ? rng.range(3, 40) : 0);
        Json ms = Json::array();
        for (int s = 0; s < o.max_steps; ++s) { Json f = Json::array(); int n = static_cast<int>(rng.range(1, 4)); for (int k = 1; k < n; ++k) f.push(static_cast<double>(k) / n); f.push(1.0); ms.push(f); }
        p["ministeps"] = ms;
        p["drops"] = Json::object();
        return p;
    }

    std::vector<Json> shrink(const Json& plan) override {
        std::vector<Json> out;
        Model m = generate_model(static_cast<std::uint64_t>(plan.geti("model_seed")), GenOpts::from_json(plan.at("gen")));
        Json drops = plan.has("drops") ? plan.at("drops") : Json::object();
        apply_drops(m, drops);
        if (plan.geti("points") > 4) { Json p = plan; p["points"] = plan.geti("points") / 2; out.push_back(p); }
        if (plan.geti("migrate_every") > 0) { Json p = plan; p["migrate_every"] = 0; out.push_back(p); }
        auto add_action = [&](const std::string& n) { Json p = plan; Json l = drops.has("actions") ? drops.at("actions") : Json::array(); l.push(n); p["drops"]["actions"] = l; out.push_back(p); };
        for (auto& a : m.actions0) add_action(a.name);
        for (auto& s : m.steps) for (auto& a : s.actions) add_action(a.name);
        for (int k = 1; k < m.nsteps(); ++k) { Json p = plan; p["drops"]["keep_steps"] = k; out.push_back(p); }
        if (m.wells.size() > 1) for (auto& w : m.wells) { Json p = plan; Json l = drops.has("wells") ? drops.at("wells") : Json::array(); l.push(w.name); p["drops"]["wells"] = l; out.push_back(p); }
        if (!drops.getb("no_udq") && !m.udq_names.empty()) { Json p = plan; p["drops"]["no_udq"] = true; out.push_back(p); }
        return out;
    }

    RunResult execute(const Json& plan) override {
        RunResult r;
        const std::string root = getenv("VERIF_RUNDIR") ? getenv("VERIF_RUNDIR") : "/dev/shm/verif.run";
        fs::begin_run(root);
        Model m = generate_model(static_cast<std::uint64_t>(plan.geti("model_seed")), GenOpts::from_json(plan.at("gen")));
        if (plan.has("drops")) apply_drops(m, plan.at("drops"));
        kw_histogram(m, r.counters);
        const auto ix = action_index(m);
        RunCfg cfg; cfg.physics_seed = static_cast<std::uint64_t>(plan.geti("physics_seed"));
        for (size_t k = 0; k < plan.at("ministeps").size(); ++k) { std::vector<double> f; for (size_t q = 0; q < plan.at("ministeps")[k].size(); ++q) f.push_back(plan.at("ministeps")[k][q].as_d()); cfg.ministeps.push_back(f); }
        const std::string deck = deck_text(m);
        fs::note("deck", deck);
        if (getenv("VERIF_DUMP_DECK")) fs::spit("/tmp/deckA.DATA", deck);
        Checker c{r, ix};
        const std::string kind = plan.gets("kind", "act");
        std::unique_ptr<World> w;
        double sim_s = 0;
        try {
            w = World::create(deck, cfg);
            if (kind == "run") {
                RunObs obs(c);
                w->write_initial();
                w->run(1, w->last_step(), &obs);
                sim_s = w->sim_seconds;
            } else {
                // ---- S-ACT: the actions of the final schedule state, driven over a long synthetic evaluation history
                const size_t lastk = w->sched->size() - 1;
                const auto& acts = (*w->sched)[lastk].actions.get();
                const auto& wlm = (*w->sched)[lastk].wlist_manager.get();
                Rng g(static_cast<std::uint64_t>(plan.geti("eval_seed")));
                std::time_t t = w->sched->getStartTime();
                const long npts = static_cast<long>(plan.geti("points"));
                const long mig = static_cast<long>(plan.geti("migrate_every"));
                auto& st = *w->st;
                const auto wells = w->sched->wellNames(lastk); const auto groups = w->sched->groupNames(lastk);
                for (long q = 0; q < npts && !c.failed; ++q) {
                    // time step: same instant, 1 s, a fraction of a wait, days, years
                    double u = g.unit();
                    long dt = u < 0.12 ? 0 : u < 0.3 ? 1 : u < 0.55 ? static_cast<long>(g.range(2, 86400)) : u < 0.9 ? static_cast<long>(g.range(1, 60)) * 86400 : static_cast<long>(g.range(1, 4)) * 365 * 86400;
                    // sometimes land exactly on "previous run + min_wait" of some action
                    if (g.chance(0.15)) for (auto& kv : c.lim.s) { auto it = ix.find(kv.first); if (it != ix.end() && it->second->min_wait >= 1 && kv.second.count > 0) { std::time_t target = kv.second.last + static_cast<std::time_t>(std::ceil(it->second->min_wait - 1e-6)) + (g.chance(0.5) ? 0 : (g.chance(0.5) ? -1 : 1)); if (target >= t) { dt = static_cast<long>(target - t); break; } } }
                    t += dt; sim_s += static_cast<double>(dt);
                    // summary state for every quantity the conditions use; values scattered around the thresholds
                    for (auto& kv : ix) for (auto& cm : kv.second->cond) {
                        const double thr = std::atof(cm.rhs.c_str());
                        auto val = [&]() { double v = g.unit(); return v < 0.1 ? thr : v < 0.55 ? thr * g.real(0.3, 0.99) : thr * g.real(1.01, 2.5); };
                        if (cm.lhs == "DAY" || cm.lhs == "MNTH" || cm.lhs == "YEAR") continue;
                        if (cm.lhs_args.empty()) st.update(cm.lhs, val());
                        else if (cm.lhs[0] == 'G') for (auto& gname : groups) st.update_group_var(gname, cm.lhs, val());
                        else for (auto& wn : wells) st.update_well_var(wn, cm.lhs, val());
                    }
                    { long long days = static_cast<long long>(t / 86400); int y, mo, d; civil_from_days(days, y, mo, d); st.update("DAY", d); st.update("MNTH", mo); st.update("MONTH", mo); st.update("YEAR", y); }
                    const std::string where = "evaluation point " + std::to_string(q) + " at t=" + std::to_string(static_cast<long long>(t));
                    c.check_pending(acts, w->astate, t, where);
                    if (c.failed) break;
                    const auto ctx = Opm::Action::Context{st, wlm};
                    for (const auto* a : acts.pending(w->astate, t)) {
                        const auto res = a->eval(ctx);
                        c.check_eval(*a, res, st, wlm, where);
                        if (res.conditionSatisfied()) { c.on_fire(*a, t); w->astate.add_run(*a, t, res); }
                        if (c.failed) break;
                    }
                    if (mig > 0 && q % mig == mig - 1) {
                        // ship the action state to a replica (MPI broadcast / checkpoint) and continue on the replica
                        Opm::Serialization::MemPacker packer; Opm::Serializer<Opm::Serialization::MemPacker> ser(packer);
                        ser.pack(w->astate);
                        Opm::Action::State replica; ser.unpack(replica);
                        w->astate = replica; ++c.probes["probe.state_migrated"];
                    }
                }
            }
        } catch (const std::exception& e) {
            if (r.violations.empty()) r.fail("C18.run_threw." + msg_key(e.what()), std::string("the run threw: ") + e.what());
        }
        long nf = 0; for (auto& kv : c.fired) nf += static_cast<long>(kv.second.size());
        r.counters["evaluations"] = c.evals; r.counters["firings"] = nf;
        for (auto& kv : c.probes) r.counters[kv.first] = kv.second;
        r.sim_seconds = sim_s;
        Hash64 sh; sh.str(kind); sh.u64(ix.size()); for (auto& kv : ix) { sh.u64(kv.second->cond.size()); sh.u64(static_cast<std::uint64_t>(kv.second->max_run)); sh.dbl(kv.second->min_wait); for (auto& cm : kv.second->cond) { sh.str(cm.lhs); sh.str(cm.logic); sh.u64(static_cast<std::uint64_t>(cm.open_paren * 4 + cm.close_paren)); } } sh.u64(static_cast<std::uint64_t>(nf));
        r.shape = sh.h; r.nontrivial = c.evals >= 5 && !ix.empty();
        Hash64 fin; fin.u64(fs::log_hash()); fin.u64(c.oh.h); r.hash = fin.h;
        Json s = Json::object(); s["kind"] = kind; s["actions"] = static_cast<long long>(ix.size()); s["evaluations"] = static_cast<long long>(c.evals); s["firings"] = static_cast<long long>(nf);
        Json cl = Json::array(); for (auto& kv : ix) cl.push(kv.first + " max_run=" + std::to_string(kv.second->max_run) + " min_wait=" + std::to_string(kv.second->min_wait) + " : " + cond_text(*kv.second)); s["conditions"] = cl;
        r.sample = s;
        for (auto& kv : fs::counters()) r.counters[kv.first] += kv.second;
        w.reset();
        fs::end_run(true);
        return r;
    }
};

} // namespace

int main(int argc, char** argv) { C18 sc; return sim::worker_main(argc, argv, sc); }
