// Simulated file layer and clocks.  The kernel stores the bytes; simfs decides what
// reaches it (outcome of every mutating libc call on files of the run) and records it.
// Seam: libc symbols (write, writev, read, truncate, rename, fopen64, clock_gettime …)
// are defined in the harness executable, so libstdc++'s filebuf / std::filesystem bind
// to them; the real ones are reached through dlsym(RTLD_NEXT).
#pragma once
#include "rng.hpp"
#include "json.hpp"
#include <cstdint>
#include <string>
#include <vector>
#include <functional>
#include <map>

namespace sim {

struct Fault {
    // where: the k-th mutating call (0-based) on a file whose class matches `cls`
    // ("*" = any class) issued while the current op index == op.
    int op = -1;
    std::string cls = "*";
    long nth = 0;
    // what
    std::string kind;   // crash_before | torn | enospc | short_write | eintr | short_read | eintr_read
    long arg = 0;       // torn: bytes that still reach the disk (modulo len+1); short_*: bytes (modulo len-1)+1
    bool fired = false;
    Json to_json() const;
    static Fault from_json(const Json& j);
};

struct FsEvent {
    std::uint64_t seq; int op; std::string cls; std::string kind; long long off; long long len; std::uint64_t dig; std::string path;
};

namespace fs {

// ---- run control -----------------------------------------------------------------
// begin_run: creates <root> (a directory in /dev/shm), chdir()s into it and resets all state.
// Library code is given *relative* paths so that nothing depends on the pid-specific root.
void begin_run(const std::string& root);
void end_run(bool remove_tree = true);
const std::string& root();
void set_op(int op);                 // current plan-op index (faults are attached to ops)
int  current_op();
void arm(const std::vector<Fault>& faults);
std::vector<Fault>& faults();
bool dead();                         // "process death": no mutating call succeeds any more
void revive();                       // new process on the surviving image
void kill_now();                     // op-boundary crash
bool enospc();
void clear_enospc();

// ---- observation ------------------------------------------------------------------
std::uint64_t log_hash();            // running hash over all events (syscall and API level)
std::uint64_t n_events();
void note(const std::string& kind, std::uint64_t digest = 0);     // API-level event
void note(const std::string& kind, const std::string& text);
const std::vector<FsEvent>& events();                             // syscall-level events kept when record_events(true)
void record_events(bool on);
long mut_calls(int op, const std::string& cls = "*");            // mutating calls seen in op (for modulo-aiming by the twin run)
const std::map<std::string, long>& counters();                    // fired faults, syscall counts …
void count(const std::string& key, long n = 1);
std::string classify(const std::string& path);                   // file class from name
bool in_scope(const char* path);
void passthrough(bool on);
// reader probes at syscall boundaries: called after every completed mutating call on a file of the run (not re-entrant)
void set_hook(std::function<void(const std::string& cls, const std::string& kind, const std::string& path)> h);           // harness-internal I/O (snapshots, replay files) bypasses the layer

// ---- images ------------------------------------------------------------------------
std::string slurp(const std::string& path);                       // harness-side read, bypasses faults
void spit(const std::string& path, const std::string& bytes);     // harness-side write, bypasses faults
bool exists(const std::string& path);
std::vector<std::string> listdir(const std::string& dir);         // sorted
void copy_tree(const std::string& from, const std::string& to);   // snapshot()
void remove_tree(const std::string& dir);
void mkdirs(const std::string& dir);

} // namespace fs

namespace clk {
// simulated wall clock: what clock_gettime/time/gettimeofday return to the library
void set_wall(double seconds_since_epoch);
void advance_wall(double seconds);
double wall();
long reads();                        // number of wall-clock reads intercepted
void enable(bool on);                // off: real clock (harness timing)
double real_now();                   // harness-only: real monotonic time
double cpu_now();                    // harness-only: process CPU seconds
} // namespace clk

} // namespace sim
