// Worker side of the runner: generates plans from seeds, executes them, gates, minimises
// and writes replay files.  The master (./check, Python) starts several workers, merges
// their JSON lines, runs the fresh-process replay gate and writes the evidence file.
#pragma once
#include "json.hpp"
#include "rng.hpp"
#include "simfs.hpp"
#include <cctype>
#include <map>
#include <set>
#include <string>
#include <vector>

namespace sim {

struct Violation {
    std::string cls;      // oracle id + sub id, e.g. "C08.rewind.fresh_bytes.formatted"
    std::string detail;   // human-readable; not part of the class
};

struct RunResult {
    std::vector<Violation> violations;
    std::uint64_t hash = 0;        // event-log hash (syscall + API events + oracle inputs)
    std::uint64_t shape = 0;       // abstraction of the run used to count distinct cases
    bool nontrivial = false;
    double sim_seconds = 0;        // simulated time covered
    std::map<std::string, long> counters;   // faults fired per kind, probes hit, syscalls …
    Json sample;                   // short description of the case for evidence.samples
    void fail(const std::string& cls, const std::string& detail) { violations.push_back({cls, detail}); }
};

struct Scenario {
    virtual ~Scenario() = default;
    virtual std::string id() const = 0;
    virtual Json generate(Rng& rng, const std::string& tier, std::uint64_t run_index) = 0;
    virtual RunResult execute(const Json& plan) = 0;
    // candidate simplifications of a failing plan, most aggressive first
    virtual std::vector<Json> shrink(const Json& plan) { (void)plan; return {}; }
    virtual Json describe() { return Json::object(); }
};

// generic helpers for shrink(): all plans obtained by deleting one element / a half of array `key`
void shrink_array(const Json& plan, const std::string& key, std::vector<Json>& out, size_t min_size = 0);

int worker_main(int argc, char** argv, Scenario& sc);

struct SimAbort { std::string why; };

// short, class-safe key of an exception message (so that minimisation cannot drift from one exception to another)
inline std::string msg_key(const std::string& m) {
    std::string k; for (char ch : m) { if (k.size() >= 48) break; if (std::isalnum(static_cast<unsigned char>(ch))) k += ch; else if (!k.empty() && k.back() != '_') k += '_'; }
    return k;
}     // thrown by harness code when the simulated process is dead

} // namespace sim
