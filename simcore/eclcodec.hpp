// Independent decoder for Eclipse array files, written from the published layout
// (big-endian Fortran records, 16-byte headers, sub-blocks of <= 1000 numeric / 105 string
// elements, fixed-width formatted columns).  Shares no header with /repo on purpose:
// C05/C08/C10 compare the library's writer with the library's reader, and a change made
// symmetrically to both is invisible to them (DESIGN 5/C07).
#pragma once
#include <cstdint>
#include <cstring>
#include <cstdlib>
#include <stdexcept>
#include <string>
#include <vector>

namespace codec {

struct Array {
    std::string name;       // 8 characters, right-trimmed
    std::string type;       // INTE REAL DOUB LOGI CHAR MESS C0nn
    long count = 0;
    int elem_size = 0;
    std::vector<std::int32_t> iv; std::vector<float> rv; std::vector<double> dv; std::vector<bool> lv; std::vector<std::string> cv;
    std::vector<std::uint32_t> logi_raw;   // unformatted only
    std::vector<std::string> real_text;    // formatted only: the printed tokens
    size_t header_off = 0;  // byte offset of the header record / line
    size_t data_off = 0;    // byte offset right after the header (record or line incl. newline)
    size_t end_off = 0;     // byte offset right after the last data byte
};

struct Error : std::runtime_error { using std::runtime_error::runtime_error; };

inline std::uint32_t be32(const std::string& b, size_t off) {
    if (off + 4 > b.size()) throw Error("unexpected end of file at byte " + std::to_string(b.size()));
    auto* p = reinterpret_cast<const unsigned char*>(b.data() + off);
    return (std::uint32_t(p[0]) << 24) | (std::uint32_t(p[1]) << 16) | (std::uint32_t(p[2]) << 8) | std::uint32_t(p[3]);
}
inline std::string rtrim(std::string s) { while (!s.empty() && s.back() == ' ') s.pop_back(); return s; }

inline void type_info(const std::string& type, int& elem, long& max_per_block) {
    if (type == "INTE" || type == "REAL" || type == "LOGI") { elem = 4; max_per_block = 1000; }
    else if (type == "DOUB") { elem = 8; max_per_block = 1000; }
    else if (type == "CHAR") { elem = 8; max_per_block = 105; }
    else if (type == "MESS") { elem = 0; max_per_block = 0; }
    else if (type.size() == 4 && type[0] == 'C' && isdigit(static_cast<unsigned char>(type[1])) && isdigit(static_cast<unsigned char>(type[2])) && isdigit(static_cast<unsigned char>(type[3]))) {
        elem = std::atoi(type.c_str() + 1); max_per_block = 105;
        if (elem <= 0) throw Error("C0nn with zero width");
    } else throw Error("unknown array type '" + type + "'");
}

// ---------------------------------------------------------------------------------- unformatted
inline std::vector<Array> decode_unformatted(const std::string& b, bool ix = false) {
    std::vector<Array> out;
    size_t p = 0;
    while (p < b.size()) {
        Array a; a.header_off = p;
        if (be32(b, p) != 16) throw Error("header record length is not 16 at byte " + std::to_string(p));
        if (p + 24 > b.size()) throw Error("truncated header at byte " + std::to_string(p));
        a.name = rtrim(b.substr(p + 4, 8));
        std::int32_t n = static_cast<std::int32_t>(be32(b, p + 12));
        a.type = b.substr(p + 16, 4);
        if (be32(b, p + 20) != 16) throw Error("header tail marker is not 16 at byte " + std::to_string(p + 20));
        p += 24;
        if (a.type == "X231") throw Error("X231 continuation headers are outside the explored size range");
        if (n < 0) throw Error("negative element count");
        a.count = n; a.data_off = p;
        long maxb; type_info(a.type, a.elem_size, maxb);
        long left = a.count;
        while (left > 0) {
            long want = left < maxb ? left : maxb;
            std::uint32_t head = be32(b, p);
            if (head != static_cast<std::uint32_t>(want * a.elem_size))
                throw Error(a.name + ": sub-block head " + std::to_string(head) + " where " + std::to_string(want * a.elem_size) + " bytes (" + std::to_string(want) + " elements) are required at byte " + std::to_string(p));
            p += 4;
            if (p + head + 4 > b.size()) throw Error(a.name + ": truncated sub-block at byte " + std::to_string(p));
            for (long k = 0; k < want; ++k) {
                size_t q = p + static_cast<size_t>(k) * static_cast<size_t>(a.elem_size);
                if (a.type == "INTE") a.iv.push_back(static_cast<std::int32_t>(be32(b, q)));
                else if (a.type == "REAL") { std::uint32_t u = be32(b, q); float f; std::memcpy(&f, &u, 4); a.rv.push_back(f); }
                else if (a.type == "DOUB") { std::uint64_t u = (std::uint64_t(be32(b, q)) << 32) | be32(b, q + 4); double d; std::memcpy(&d, &u, 8); a.dv.push_back(d); }
                else if (a.type == "LOGI") {
                    std::uint32_t u = be32(b, q); a.logi_raw.push_back(u);
                    if (!ix && u != 0 && u != 0xffffffffu) throw Error(a.name + ": LOGI word is neither 0 nor 0xFFFFFFFF");
                    if (ix && u != 0 && u != 0x00000001u && u != 0xffffffffu) throw Error(a.name + ": LOGI word (IX) is neither 0, 1 nor -1");
                    a.lv.push_back(u != 0);
                } else a.cv.push_back(rtrim(b.substr(q, static_cast<size_t>(a.elem_size))));
            }
            p += head;
            if (be32(b, p) != head) throw Error(a.name + ": sub-block tail differs from head at byte " + std::to_string(p));
            p += 4;
            left -= want;
        }
        a.end_off = p;
        out.push_back(std::move(a));
    }
    return out;
}

// ---------------------------------------------------------------------------------- formatted
inline double parse_fortran_real(std::string t) {
    // forms: 0.12345678E+01  -0.12345678901234D+02  0.12345678901234+100  NAN INF -INF  (IX: 1.2345678E+00)
    size_t s = 0; while (s < t.size() && t[s] == ' ') ++s;
    t = t.substr(s);
    if (t == "NAN") return std::nan("");
    if (t == "INF") return HUGE_VAL;
    if (t == "-INF") return -HUGE_VAL;
    for (auto& c : t) if (c == 'D' || c == 'd') c = 'E';
    if (t.find('E') == std::string::npos) {
        size_t q = t.find_last_of("+-");
        if (q != std::string::npos && q > 0) t.insert(q, "E");
    }
    char* end = nullptr;
    std::string z = t; z.push_back('\0');
    double v = std::strtod(z.c_str(), &end);
    if (end == z.c_str() || *end != '\0') throw Error("unparsable real '" + t + "'");
    return v;
}

inline std::vector<Array> decode_formatted(const std::string& b) {
    std::vector<Array> out;
    size_t p = 0;
    auto take_line = [&](size_t& pos) -> std::string {
        size_t q = b.find('\n', pos);
        if (q == std::string::npos) throw Error("missing newline after byte " + std::to_string(pos));
        std::string l = b.substr(pos, q - pos); pos = q + 1; return l;
    };
    while (p < b.size()) {
        Array a; a.header_off = p;
        std::string h = take_line(p);
        // " 'NAME    ' %11d 'TYPE'"
        if (h.size() != 30 || h[0] != ' ' || h[1] != '\'' || h[10] != '\'' || h[11] != ' ' || h[23] != ' ' || h[24] != '\'' || h[29] != '\'')
            throw Error("malformed formatted header line at byte " + std::to_string(a.header_off) + ": [" + h + "]");
        a.name = rtrim(h.substr(2, 8));
        a.count = std::atol(h.substr(12, 11).c_str());
        a.type = h.substr(25, 4);
        a.data_off = p;
        long maxb; type_info(a.type, a.elem_size, maxb);
        int cols, width;
        if (a.type == "INTE") { cols = 6; width = 12; }
        else if (a.type == "REAL") { cols = 4; width = 17; }
        else if (a.type == "DOUB") { cols = 3; width = 23; }
        else if (a.type == "LOGI") { cols = 25; width = 3; }
        else if (a.type == "MESS") { cols = 1; width = 0; }
        else { cols = a.elem_size <= 8 ? 7 : (80 / (a.elem_size + 3) > 0 ? 80 / (a.elem_size + 3) : 1); width = a.elem_size + 3; }
        long left = a.count;
        while (left > 0) {
            long inblock = left < maxb ? left : maxb;
            long done = 0;
            while (done < inblock) {
                long online = inblock - done < cols ? inblock - done : cols;
                std::string l = take_line(p);
                if (static_cast<long>(l.size()) != online * width)
                    throw Error(a.name + ": data line has " + std::to_string(l.size()) + " characters where " + std::to_string(online) + " columns of width " + std::to_string(width) + " are required (byte " + std::to_string(p) + ")");
                for (long k = 0; k < online; ++k) {
                    std::string t = l.substr(static_cast<size_t>(k * width), static_cast<size_t>(width));
                    if (a.type == "INTE") {
                        char* e = nullptr; std::string z = t; long v = std::strtol(z.c_str(), &e, 10);
                        if (*e) throw Error(a.name + ": unparsable integer [" + t + "]");
                        a.iv.push_back(static_cast<std::int32_t>(v));
                    } else if (a.type == "REAL") { a.real_text.push_back(t); a.rv.push_back(static_cast<float>(parse_fortran_real(t))); }
                    else if (a.type == "DOUB") { a.real_text.push_back(t); a.dv.push_back(parse_fortran_real(t)); }
                    else if (a.type == "LOGI") { if (t != "  T" && t != "  F") throw Error(a.name + ": LOGI token [" + t + "]"); a.lv.push_back(t[2] == 'T'); }
                    else {
                        if (t[0] != ' ' || t[1] != '\'' || t[static_cast<size_t>(width) - 1] != '\'') throw Error(a.name + ": string token [" + t + "]");
                        a.cv.push_back(rtrim(t.substr(2, static_cast<size_t>(a.elem_size))));
                    }
                }
                done += online;
            }
            left -= inblock;
        }
        a.end_off = p;
        out.push_back(std::move(a));
    }
    return out;
}

// bytes that `count` elements of `type` occupy on disk after the header, by the published arithmetic
inline size_t unformatted_data_size(const std::string& type, long count) {
    int elem; long maxb; type_info(type, elem, maxb);
    if (count == 0 || elem == 0) return 0;
    long blocks = (count + maxb - 1) / maxb;
    return static_cast<size_t>(count) * static_cast<size_t>(elem) + static_cast<size_t>(blocks) * 8;
}

} // namespace codec
