#include "runner.hpp"

#include <cstdio>
#include <cstdlib>
#include <cstring>
#include <exception>
#include <unistd.h>
#include <sys/personality.h>

extern "C" __attribute__((used, visibility("default"))) const char* __asan_default_options() {
    return "exitcode=77:detect_leaks=0:alloc_dealloc_mismatch=0:allocator_may_return_null=1:detect_stack_use_after_return=0:handle_abort=1";
}
extern "C" __attribute__((used, visibility("default"))) const char* __ubsan_default_options() {
    return "halt_on_error=1:exitcode=78:print_stacktrace=1";
}

namespace sim {

void shrink_array(const Json& plan, const std::string& key, std::vector<Json>& out, size_t min_size) {
    if (!plan.has(key)) return;
    const Json& arr = plan.at(key);
    size_t n = arr.size();
    if (n <= min_size) return;
    auto without = [&](size_t lo, size_t hi) {
        Json p = plan; Json a = Json::array();
        for (size_t k = 0; k < n; ++k) if (k < lo || k >= hi) a.push(arr[k]);
        p[key] = a; return p;
    };
    if (n >= 4 && n / 2 >= min_size) { out.push_back(without(n / 2, n)); out.push_back(without(0, n / 2)); }
    for (size_t k = n; k-- > 0;) if (n - 1 >= min_size) out.push_back(without(k, k + 1));
}

namespace {

std::string g_inflight;
std::string g_id;

struct Args {
    std::string mode, tier = "quick", scratch, replays = "/verif/replays", file;
    std::uint64_t seed = 1; long from = 0, count = 1, stride = 1; double budget = 1e9;
    std::set<std::string> known;
    int shrink_budget = 300;
    long pool = 0;
};

const Violation* first_unknown(const RunResult& r, const std::set<std::string>& known) {
    if (known.count("*")) return nullptr;
    for (auto& v : r.violations) if (!known.count(v.cls)) return &v;
    return nullptr;
}

RunResult guarded_execute(Scenario& sc, const Json& plan) {
    try {
        return sc.execute(plan);
    } catch (const std::exception& e) {
        RunResult r; r.fail(sc.id() + ".harness.exception", std::string("exception escaped the scenario: ") + e.what());
        r.hash = fs::log_hash();
        fs::end_run(true);
        return r;
    } catch (const SimAbort& a) {
        RunResult r; r.fail(sc.id() + ".harness.abort", "SimAbort escaped: " + a.why);
        fs::end_run(true);
        return r;
    }
}

Json result_line(const Json& plan, const RunResult& r, double wall) {
    Json j = Json::object();
    j["type"] = "run";
    j["run"] = plan.geti("run");
    j["seed"] = plan.gets("seed");
    j["hash"] = hex64(r.hash);
    j["shape"] = hex64(r.shape);
    j["nontrivial"] = r.nontrivial;
    j["sim_s"] = r.sim_seconds;
    j["wall_s"] = wall;
    Json c = Json::object();
    for (auto& kv : r.counters) c[kv.first] = kv.second;
    j["counters"] = c;
    Json v = Json::array();
    for (auto& x : r.violations) { Json e = Json::object(); e["cls"] = x.cls; e["detail"] = x.detail; v.push(e); }
    j["violations"] = v;
    if (!r.sample.is_null()) j["sample"] = r.sample;
    return j;
}

void emit(const Json& j) { std::string s = j.dump(); s += '\n'; fwrite(s.data(), 1, s.size(), stdout); fflush(stdout); }

} // namespace

int worker_main(int argc, char** argv, Scenario& sc) {
    Args a;
    g_id = sc.id();
    if (argc < 2) { fprintf(stderr, "usage: %s run|replay|describe …\n", argv[0]); return 2; }
    a.mode = argv[1];
    for (int k = 2; k < argc; ++k) {
        std::string o = argv[k];
        auto val = [&]() -> std::string { if (k + 1 >= argc) { fprintf(stderr, "missing value for %s\n", o.c_str()); exit(2); } return argv[++k]; };
        if (o == "--seed") a.seed = std::strtoull(val().c_str(), nullptr, 10);
        else if (o == "--from") a.from = std::atol(val().c_str());
        else if (o == "--count") a.count = std::atol(val().c_str());
        else if (o == "--stride") a.stride = std::atol(val().c_str());
        else if (o == "--tier") a.tier = val();
        else if (o == "--budget") a.budget = std::atof(val().c_str());
        else if (o == "--scratch") a.scratch = val();
        else if (o == "--replays") a.replays = val();
        else if (o == "--shrink-budget") a.shrink_budget = std::atoi(val().c_str());
        else if (o == "--pool") a.pool = std::atol(val().c_str());
        else if (o == "--known") { std::string v = val(); size_t p = 0; while (p <= v.size()) { size_t q = v.find(',', p); if (q == std::string::npos) q = v.size(); if (q > p) a.known.insert(v.substr(p, q - p)); p = q + 1; } }
        else if (o == "--aslr") {}
        else if (a.file.empty()) a.file = o;
    }
    // ASLR off so that a pointer-ordered container cannot silently break replay (DESIGN 3.1)
    if (!getenv("VERIF_KEEP_ASLR") && !getenv("VERIF_REEXEC")) {
        int pers = personality(0xffffffff);
        if (pers != -1 && !(pers & ADDR_NO_RANDOMIZE) && personality(pers | ADDR_NO_RANDOMIZE) != -1) {
            setenv("VERIF_REEXEC", "1", 1);
            execv("/proc/self/exe", argv);
        }
    }
    if (a.scratch.empty()) a.scratch = "/dev/shm/verif." + std::to_string(getpid());
    fs::passthrough(true); fs::mkdirs(a.scratch); fs::mkdirs(a.replays); fs::passthrough(false);
    const std::string rundir = a.scratch + "/run";
    setenv("VERIF_RUNDIR", rundir.c_str(), 1);
    g_inflight = a.scratch + "/inflight.json";

    std::set_terminate([] {
        const char* what = "unknown";
        try { if (auto e = std::current_exception()) std::rethrow_exception(e); }
        catch (const std::exception& e) { what = e.what(); } catch (...) { what = "non-std exception"; }
        fprintf(stdout, "{\"type\":\"terminate\",\"what\":\"std::terminate: %.200s\",\"inflight\":\"%s\"}\n", "see stderr", g_inflight.c_str());
        fprintf(stderr, "TERMINATE: %s\n", what);
        fflush(stdout); fflush(stderr);
        _exit(79);
    });

    if (a.mode == "describe") { emit(sc.describe()); return 0; }

    if (a.mode == "shrink") {
        Json file = Json::parse(fs::slurp(a.file));
        const Json& plan = file.has("plan") ? file.at("plan") : file;
        for (auto& c : sc.shrink(plan)) emit(c);
        return 0;
    }

    if (a.mode == "replay") {
        Json file = Json::parse(fs::slurp(a.file));
        const Json& plan = file.has("plan") ? file.at("plan") : file;
        fs::spit(g_inflight, plan.dump(1));
        double t0 = clk::real_now();
        RunResult r = guarded_execute(sc, plan);
        Json line = result_line(plan, r, clk::real_now() - t0);
        line["type"] = "replay";
        const Violation* v = first_unknown(r, {});
        std::string want = file.gets("class");
        bool reproduced = false;
        for (auto& x : r.violations) if (x.cls == want) reproduced = true;
        line["expected_class"] = want;
        line["expected_hash"] = file.gets("hash");
        line["reproduced"] = reproduced && (file.gets("hash").empty() || file.gets("hash") == hex64(r.hash));
        emit(line);
        if (v) { printf("replay: violation class=%s detail=%s\n", v->cls.c_str(), v->detail.c_str()); return 1; }
        return 0;
    }

    if (a.mode != "run") { fprintf(stderr, "unknown mode %s\n", a.mode.c_str()); return 2; }

    double t_start = clk::real_now();
    long done = 0;
    for (long k = 0; k < a.count; ++k) {
        if (clk::real_now() - t_start > a.budget) break;
        long run = a.from + k * a.stride;
        // --pool P: the plans come from a fixed pool of P plan seeds (index = run mod P); the run index stays the logical one
        const long pidx = a.pool > 0 ? run % a.pool : run;
        std::uint64_t rseed = mix64(a.seed ^ mix64(static_cast<std::uint64_t>(pidx) + 0x5eedULL));
        Rng rng(rseed);
        Json plan = sc.generate(rng, a.tier, static_cast<std::uint64_t>(pidx));
        plan["run"] = run;
        if (a.pool > 0) plan["pool_index"] = pidx;
        plan["seed"] = hex64(rseed);
        plan["property"] = sc.id();
        fs::spit(g_inflight, plan.dump(1));
        double t0 = clk::real_now();
        RunResult r = guarded_execute(sc, plan);
        ++done;
        Json line = result_line(plan, r, clk::real_now() - t0);
        const Violation* v = first_unknown(r, a.known);
        if (!v) { emit(line); continue; }

        // ---- gate (i): same plan, same process, same class and same event-log hash
        std::string cls = v->cls, detail = v->detail;
        RunResult r2 = guarded_execute(sc, plan);
        const Violation* v2 = first_unknown(r2, a.known);
        bool stable = v2 && v2->cls == cls && r2.hash == r.hash;
        line["gate_same_process"] = stable;
        // the unshrunk plan is a complete result already: written before minimisation, so that a shrink candidate that
        // kills the process (a smaller input can crash where the original only mis-answers) cannot lose or mis-attribute it
        const std::string path = a.replays + "/" + sc.id() + "-" + plan.gets("seed") + ".json";
        {
            Json file = Json::object();
            file["property"] = sc.id(); file["class"] = cls; file["detail"] = detail; file["hash"] = hex64(r.hash);
            file["shrink_reexecutions"] = 0; file["original_seed"] = plan.gets("seed"); file["plan"] = plan;
            fs::spit(path, file.dump(1));
            Json pend = line; pend["type"] = "violation_pending"; pend["class"] = cls; pend["detail"] = detail; pend["replay"] = path; pend["min_hash"] = hex64(r.hash);
            emit(pend);
        }
        // ---- minimise while the same violation class persists
        Json best = plan; RunResult best_r = r; int tries = 0;
        if (stable) {
            bool progress = true;
            while (progress && tries < a.shrink_budget) {
                progress = false;
                for (auto& cand : sc.shrink(best)) {
                    if (tries >= a.shrink_budget) break;
                    ++tries;
                    RunResult rc = guarded_execute(sc, cand);
                    const Violation* vc = first_unknown(rc, a.known);
                    if (vc && vc->cls == cls) { best = cand; best_r = rc; progress = true; break; }
                }
            }
            // the minimised plan must itself be stable
            RunResult rb = guarded_execute(sc, best);
            const Violation* vb = first_unknown(rb, a.known);
            if (!(vb && vb->cls == cls && rb.hash == best_r.hash)) { best = plan; best_r = r; }
        }
        const Violation* vfin = first_unknown(best_r, a.known);
        Json file = Json::object();
        file["property"] = sc.id();
        file["class"] = cls;
        file["detail"] = vfin ? vfin->detail : detail;
        file["hash"] = hex64(best_r.hash);
        file["shrink_reexecutions"] = tries;
        file["original_seed"] = plan.gets("seed");
        file["plan"] = best;
        fs::spit(path, file.dump(1));
        line["type"] = "violation";
        line["class"] = cls;
        line["detail"] = file.gets("detail");
        line["replay"] = path;
        line["min_hash"] = hex64(best_r.hash);
        emit(line);
        break;   // first unknown violation ends this worker
    }
    Json fin = Json::object();
    fin["type"] = "done"; fin["runs"] = done; fin["wall_s"] = clk::real_now() - t_start;
    emit(fin);
    fs::passthrough(true); fs::remove_tree(a.scratch);
    return 0;
}

} // namespace sim
