#ifndef _GNU_SOURCE
#define _GNU_SOURCE
#endif
#include "simfs.hpp"

#include <dlfcn.h>
#include <dirent.h>
#include <errno.h>
#include <fcntl.h>
#include <stdarg.h>
#include <stdio.h>
#include <string.h>
#include <sys/stat.h>
#include <sys/syscall.h>
#include <sys/time.h>
#include <sys/uio.h>
#include <sys/resource.h>
#include <time.h>
#include <unistd.h>
#include <ctype.h>
#if defined(__SANITIZE_ADDRESS__)
extern "C" void __asan_describe_address(void* addr);
extern "C" void __sanitizer_print_stack_trace(void);
#endif

#include <algorithm>
#include <cstdlib>
#include <stdexcept>

namespace sim {

Json Fault::to_json() const {
    Json j = Json::object();
    j["op"] = op; j["cls"] = cls; j["nth"] = nth; j["kind"] = kind; j["arg"] = arg;
    return j;
}
Fault Fault::from_json(const Json& j) {
    Fault f; f.op = static_cast<int>(j.geti("op", -1)); f.cls = j.gets("cls", "*"); f.nth = j.geti("nth");
    f.kind = j.gets("kind"); f.arg = j.geti("arg"); return f;
}

namespace {

struct State {
    std::string root;            // absolute, with trailing '/'
    bool active = false;
    bool pass = false;
    bool dead = false;
    bool enospc = false;
    bool record = false;
    int op = 0;
    std::uint64_t seq = 0;
    Hash64 log;
    std::vector<Fault> faults;
    std::vector<FsEvent> events;
    std::map<std::string, long> counters;
    std::map<std::pair<int, std::string>, long> mut;     // (op, cls) -> mutating calls
    std::map<std::pair<int, std::string>, long> rd;      // (op, cls) -> read calls
    // fd table
    struct Fd { bool used = false; std::string path; std::string cls; };
    std::vector<Fd> fds = std::vector<Fd>(4096);
    // clock
    std::function<void(const std::string&, const std::string&, const std::string&)> hook; bool in_hook = false;
    bool clk_on = false;
    double wall = 1.6e9;
    long clk_reads = 0;
};
State& S() { static State* s = new State; return *s; }

template <class F> F real_fn(const char* name) {
    void* p = dlsym(RTLD_NEXT, name);
    if (!p) { fprintf(stderr, "simfs: dlsym(%s) failed\n", name); _exit(2); }
    return reinterpret_cast<F>(p);
}

std::string rel(const char* path) {
    State& s = S();
    std::string p = path ? path : "";
    if (!p.empty() && p[0] == '/' && !p.compare(0, s.root.size(), s.root)) p = p.substr(s.root.size());
    while (!p.compare(0, 2, "./")) p = p.substr(2);
    return p;
}

long long real_tell(int fd) { return static_cast<long long>(syscall(SYS_lseek, fd, 0L, SEEK_CUR)); }

void run_hook(const char* kind, const std::string& cls, const std::string& path) {
    State& s = S();
    if (!s.hook || s.in_hook || s.dead || s.pass) return;
    s.in_hook = true;
    try { s.hook(cls, kind, path); } catch (...) { s.in_hook = false; throw; }
    s.in_hook = false;
}

void log_event(const char* kind, const std::string& cls, const std::string& path, long long off, long long len, std::uint64_t dig) {
    State& s = S();
    ++s.seq;
    s.log.u64(s.seq); s.log.u64(static_cast<std::uint64_t>(s.op)); s.log.str(kind); s.log.str(cls); s.log.str(path);
    s.log.u64(static_cast<std::uint64_t>(off)); s.log.u64(static_cast<std::uint64_t>(len)); s.log.u64(dig);
    if (s.record) s.events.push_back(FsEvent{s.seq, s.op, cls, kind, off, len, dig, path});
}

// Decision for one mutating call.  Returns the fault that fires here (or nullptr).
Fault* mutating_call(const std::string& cls) {
    State& s = S();
    long k_any = s.mut[{s.op, "*"}]++;
    long k_cls = s.mut[{s.op, cls}]++;
    ++s.counters["sys.mutating"];
    for (auto& f : s.faults) {
        if (f.fired || f.op != s.op) continue;
        if (f.kind == "short_read" || f.kind == "eintr_read") continue;
        long k = (f.cls == "*") ? k_any : (f.cls == cls ? k_cls : -1);
        if (k == f.nth) { f.fired = true; ++s.counters["fault." + f.kind]; return &f; }
    }
    return nullptr;
}
Fault* read_call(const std::string& cls) {
    State& s = S();
    long k_any = s.rd[{s.op, "*"}]++;
    long k_cls = s.rd[{s.op, cls}]++;
    for (auto& f : s.faults) {
        if (f.fired || f.op != s.op) continue;
        if (f.kind != "short_read" && f.kind != "eintr_read") continue;
        long k = (f.cls == "*") ? k_any : (f.cls == cls ? k_cls : -1);
        if (k == f.nth) { f.fired = true; ++s.counters["fault." + f.kind]; return &f; }
    }
    return nullptr;
}

void die(const char* why) {
    State& s = S();
    if (!s.dead) { s.dead = true; log_event("DIE", "-", why, 0, 0, 0); }
}

bool tracked(int fd) { State& s = S(); return s.active && !s.pass && fd >= 0 && fd < static_cast<int>(s.fds.size()) && s.fds[static_cast<size_t>(fd)].used; }
void track(int fd, const char* path) {
    State& s = S();
    if (fd < 0 || fd >= static_cast<int>(s.fds.size())) return;
    auto& e = s.fds[static_cast<size_t>(fd)];
    e.used = true; e.path = rel(path); e.cls = fs::classify(e.path);
}
void untrack(int fd) { State& s = S(); if (fd >= 0 && fd < static_cast<int>(s.fds.size())) s.fds[static_cast<size_t>(fd)].used = false; }

bool mode_mutates(const char* mode) { return mode && (strchr(mode, 'w') || strchr(mode, 'a') || strchr(mode, '+')); }

// outcome of a non-data mutating call (open-for-write, truncate, rename, unlink):
// 0 = perform; 1 = fail (EIO, dead); 2 = perform, then die
int meta_outcome(const std::string& cls) {
    State& s = S();
    if (s.dead) return 1;
    Fault* f = mutating_call(cls);
    if (!f) return 0;
    if (f->kind == "crash_before") { die("crash_before"); return 1; }
    if (f->kind == "torn") { if (f->arg % 2 == 0) { die("crash_before"); return 1; } return 2; }
    if (f->kind == "enospc") { s.enospc = true; return 0; }
    return 0;   // short_write / eintr on a metadata call: no effect
}

} // namespace

namespace fs {

const std::string& root() { return S().root; }
void passthrough(bool on) { S().pass = on; }
void set_hook(std::function<void(const std::string&, const std::string&, const std::string&)> h) { S().hook = std::move(h); }
bool in_scope(const char* path) {
    State& s = S();
    if (!s.active || s.pass || !path || !*path) return false;
    if (path[0] != '/') return true;
    return !strncmp(path, s.root.c_str(), s.root.size());
}

std::string classify(const std::string& path) {
    std::string name = path;
    auto sl = name.rfind('/'); if (sl != std::string::npos) name = name.substr(sl + 1);
    auto dot = name.rfind('.');
    std::string ext = dot == std::string::npos ? "" : name.substr(dot + 1);
    if (name.find("_TMP_") != std::string::npos && ext == "ESMRY") return "ESMRY_TMP";
    if (ext == "UNRST" || ext == "FUNRST") return "UNRST";
    if (ext == "SMSPEC" || ext == "FSMSPEC") return "SMSPEC";
    if (ext == "UNSMRY" || ext == "FUNSMRY") return "UNSMRY";
    if (ext == "ESMRY") return "ESMRY";
    if (ext == "INIT" || ext == "FINIT") return "INIT";
    if (ext == "EGRID" || ext == "FEGRID") return "EGRID";
    if (ext == "RFT" || ext == "FRFT") return "RFT";
    if (ext == "RSM") return "RSM";
    if (ext == "DATA" || ext == "INC" || ext == "include") return "DECK";
    if (ext.size() == 5 && (ext[0] == 'X' || ext[0] == 'F') && isdigit(static_cast<unsigned char>(ext[1]))) return "X";
    if (ext.size() == 5 && (ext[0] == 'S' || ext[0] == 'A') && isdigit(static_cast<unsigned char>(ext[1]))) return "S";
    return "OTHER";
}

void mkdirs(const std::string& dir) {
    std::string cur;
    for (size_t p = 0; p <= dir.size(); ++p) {
        if (p == dir.size() || dir[p] == '/') { if (!cur.empty()) ::mkdir(cur.c_str(), 0755); }
        if (p < dir.size()) cur += dir[p];
    }
}

void remove_tree(const std::string& dir) {
    bool was = S().pass; S().pass = true;
    DIR* d = opendir(dir.c_str());
    if (d) {
        while (dirent* e = readdir(d)) {
            std::string n = e->d_name; if (n == "." || n == "..") continue;
            std::string p = dir + "/" + n;
            struct stat st;
            if (!lstat(p.c_str(), &st) && S_ISDIR(st.st_mode)) remove_tree(p); else ::unlink(p.c_str());
        }
        closedir(d);
        ::rmdir(dir.c_str());
    }
    S().pass = was;
}

std::vector<std::string> listdir(const std::string& dir) {
    std::vector<std::string> out;
    DIR* d = opendir(dir.empty() ? "." : dir.c_str());
    if (!d) return out;
    while (dirent* e = readdir(d)) { std::string n = e->d_name; if (n != "." && n != "..") out.push_back(n); }
    closedir(d);
    std::sort(out.begin(), out.end());
    return out;
}

bool exists(const std::string& path) { struct stat st; return !::stat(path.c_str(), &st); }

std::string slurp(const std::string& path) {
    bool was = S().pass; S().pass = true;
    std::string out;
    int fd = ::open(path.c_str(), O_RDONLY);
    if (fd >= 0) {
        char buf[65536]; ssize_t n;
        while ((n = static_cast<ssize_t>(syscall(SYS_read, fd, buf, sizeof buf))) > 0) out.append(buf, static_cast<size_t>(n));
        ::close(fd);
    }
    S().pass = was;
    return out;
}
void spit(const std::string& path, const std::string& bytes) {
    bool was = S().pass; S().pass = true;
    int fd = ::open(path.c_str(), O_WRONLY | O_CREAT | O_TRUNC, 0644);
    if (fd < 0) { S().pass = was; throw std::runtime_error("simfs::spit cannot open " + path); }
    size_t off = 0;
    while (off < bytes.size()) { long n = syscall(SYS_write, fd, bytes.data() + off, bytes.size() - off); if (n <= 0) break; off += static_cast<size_t>(n); }
    ::close(fd);
    S().pass = was;
}
void copy_tree(const std::string& from, const std::string& to) {
    bool was = S().pass; S().pass = true;
    mkdirs(to);
    for (auto& n : listdir(from)) {
        std::string p = from + "/" + n, q = to + "/" + n;
        struct stat st;
        if (!lstat(p.c_str(), &st) && S_ISDIR(st.st_mode)) copy_tree(p, q); else spit(q, slurp(p));
    }
    S().pass = was;
}

void begin_run(const std::string& root_dir) {
    State& s = S();
    s.pass = true;
    remove_tree(root_dir);
    mkdirs(root_dir);
    s.root = root_dir; if (s.root.empty() || s.root.back() != '/') s.root += '/';
    if (::chdir(root_dir.c_str())) { perror("simfs: chdir"); _exit(2); }
    s.pass = false;
    s.active = true; s.dead = false; s.enospc = false; s.op = 0; s.seq = 0; s.log = Hash64();
    s.faults.clear(); s.events.clear(); s.counters.clear(); s.mut.clear(); s.rd.clear();
    for (auto& f : s.fds) f.used = false;
    s.wall = 1.6e9; s.clk_reads = 0; s.clk_on = true; s.hook = nullptr; s.in_hook = false;
}
void end_run(bool remove) {
    State& s = S();
    s.active = false; s.clk_on = false; s.pass = true;
    if (::chdir("/")) {}
    if (remove && !s.root.empty() && !getenv("VERIF_KEEP")) remove_tree(s.root.substr(0, s.root.size() - 1));
    s.pass = false;
}
void set_op(int op) { S().op = op; }
int current_op() { return S().op; }
void arm(const std::vector<Fault>& f) { S().faults = f; }
std::vector<Fault>& faults() { return S().faults; }
bool dead() { return S().dead; }
void revive() { State& s = S(); s.dead = false; s.enospc = false; for (auto& f : s.fds) f.used = false; log_event("REVIVE", "-", "", 0, 0, 0); }
void kill_now() { die("kill_now"); }
bool enospc() { return S().enospc; }
void clear_enospc() { S().enospc = false; }
std::uint64_t log_hash() { return S().log.h; }
std::uint64_t n_events() { return S().seq; }
void note(const std::string& kind, std::uint64_t digest) { log_event(kind.c_str(), "api", "", 0, 0, digest); }
void note(const std::string& kind, const std::string& text) { log_event(kind.c_str(), "api", "", 0, static_cast<long long>(text.size()), sim::digest(text.data(), text.size())); }
const std::vector<FsEvent>& events() { return S().events; }
void record_events(bool on) { S().record = on; if (!on) S().events.clear(); }
long mut_calls(int op, const std::string& cls) { auto it = S().mut.find({op, cls}); return it == S().mut.end() ? 0 : it->second; }
const std::map<std::string, long>& counters() { return S().counters; }
void count(const std::string& key, long n) { S().counters[key] += n; }

} // namespace fs

namespace clk {
void set_wall(double t) { S().wall = t; }
void advance_wall(double dt) { S().wall += dt; }
double wall() { return S().wall; }
long reads() { return S().clk_reads; }
void enable(bool on) { S().clk_on = on; }
double real_now() { struct timespec ts; syscall(SYS_clock_gettime, CLOCK_MONOTONIC, &ts); return static_cast<double>(ts.tv_sec) + 1e-9 * static_cast<double>(ts.tv_nsec); }
double cpu_now() { struct timespec ts; syscall(SYS_clock_gettime, CLOCK_PROCESS_CPUTIME_ID, &ts); return static_cast<double>(ts.tv_sec) + 1e-9 * static_cast<double>(ts.tv_nsec); }
} // namespace clk

} // namespace sim

// =====================================================================================
// libc interposers
// =====================================================================================
using sim::S;
using sim::Fault;

extern "C" {

FILE* fopen64(const char* path, const char* mode) {
    static auto real = sim::real_fn<FILE* (*)(const char*, const char*)>("fopen64");
    if (!sim::fs::in_scope(path)) return real(path, mode);
    std::string p = sim::rel(path), cls = sim::fs::classify(p);
    int after = 0;
    if (sim::mode_mutates(mode)) {
        int oc = sim::meta_outcome(cls);
        if (oc == 1) { errno = EIO; return nullptr; }
        after = oc;
        sim::log_event(strchr(mode, 'a') ? "open_a" : strchr(mode, 'w') ? "open_w" : "open_rw", cls, p, 0, 0, 0);
    }
    FILE* f = real(path, mode);
    if (f) sim::track(fileno(f), path);
    if (after == 2) sim::die("crash_after_open");
    return f;
}
FILE* fopen(const char* path, const char* mode) { return fopen64(path, mode); }

int fclose(FILE* f) {
    static auto real = sim::real_fn<int (*)(FILE*)>("fclose");
    if (f) sim::untrack(fileno(f));
    return real(f);
}

int open64(const char* path, int flags, ...) {
    static auto real = sim::real_fn<int (*)(const char*, int, ...)>("open64");
    mode_t mode = 0;
    if (flags & (O_CREAT | O_TMPFILE)) { va_list ap; va_start(ap, flags); mode = static_cast<mode_t>(va_arg(ap, int)); va_end(ap); }
    if (!sim::fs::in_scope(path)) return real(path, flags, mode);
    std::string p = sim::rel(path), cls = sim::fs::classify(p);
    int after = 0;
    if ((flags & O_ACCMODE) != O_RDONLY || (flags & (O_CREAT | O_TRUNC))) {
        int oc = sim::meta_outcome(cls);
        if (oc == 1) { errno = EIO; return -1; }
        after = oc;
        sim::log_event("open_fd", cls, p, 0, flags & (O_TRUNC | O_APPEND | O_CREAT), 0);
    }
    int fd = real(path, flags, mode);
    if (fd >= 0) sim::track(fd, path);
    if (after == 2) sim::die("crash_after_open");
    return fd;
}
int open(const char* path, int flags, ...) {
    mode_t mode = 0;
    if (flags & (O_CREAT | O_TMPFILE)) { va_list ap; va_start(ap, flags); mode = static_cast<mode_t>(va_arg(ap, int)); va_end(ap); }
    return open64(path, flags, mode);
}
int close(int fd) {
    sim::untrack(fd);
    return static_cast<int>(syscall(SYS_close, fd));
}

ssize_t write(int fd, const void* buf, size_t n) {
    static auto real = sim::real_fn<ssize_t (*)(int, const void*, size_t)>("write");
    if (!sim::tracked(fd)) return real(fd, buf, n);
    auto& s = S();
    auto& e = s.fds[static_cast<size_t>(fd)];
    if (s.dead) { errno = EIO; return -1; }
    Fault* f = sim::mutating_call(e.cls);
    if (f) {
        if (f->kind == "crash_before") { sim::die("crash_before"); errno = EIO; return -1; }
        if (f->kind == "torn") {
            size_t allow = f->arg == -1 ? (n ? n - 1 : 0) : f->arg == -2 ? n / 2 : (f->arg < 0 ? 0 : static_cast<size_t>(f->arg) % (n + 1));
            long long off = sim::real_tell(fd);
            if (allow) { ssize_t r = real(fd, buf, allow); (void)r; }
            sim::log_event("write_torn", e.cls, e.path, off, static_cast<long long>(allow), sim::digest(buf, allow));
            sim::die("torn");
            errno = EIO; return -1;
        }
        if (f->kind == "enospc") s.enospc = true;
        if (f->kind == "eintr") { errno = EINTR; return -1; }
        if (f->kind == "short_write" && n > 1) {
            size_t k = 1 + static_cast<size_t>(f->arg) % (n - 1);
            long long off = sim::real_tell(fd);
            ssize_t r = real(fd, buf, k);
            sim::log_event("write_short", e.cls, e.path, off, r, sim::digest(buf, r > 0 ? static_cast<size_t>(r) : 0));
            return r;
        }
    }
    if (s.enospc) { ++s.counters["sys.enospc_write"]; errno = ENOSPC; return -1; }
    long long off = sim::real_tell(fd);
    ssize_t r = real(fd, buf, n);
    sim::log_event("write", e.cls, e.path, off, r, sim::digest(buf, r > 0 ? static_cast<size_t>(r) : 0));
    ++s.counters["sys.write"];
    { const std::string c2 = e.cls, p2 = e.path; sim::run_hook("write", c2, p2); }
    return r;
}

ssize_t writev(int fd, const struct iovec* iov, int cnt) {
    static auto real = sim::real_fn<ssize_t (*)(int, const struct iovec*, int)>("writev");
    if (!sim::tracked(fd)) return real(fd, iov, cnt);
    // flatten: one decision for the whole vector, performed through write semantics
    std::string flat;
    for (int k = 0; k < cnt; ++k) flat.append(static_cast<const char*>(iov[k].iov_base), iov[k].iov_len);
    ++S().counters["sys.writev"];
    return write(fd, flat.data(), flat.size());
}

ssize_t read(int fd, void* buf, size_t n) {
    static auto real = sim::real_fn<ssize_t (*)(int, void*, size_t)>("read");
    if (!sim::tracked(fd)) return real(fd, buf, n);
    auto& s = S();
    auto& e = s.fds[static_cast<size_t>(fd)];
    ++s.counters["sys.read"];
    Fault* f = sim::read_call(e.cls);
    if (f) {
        if (f->kind == "eintr_read") { errno = EINTR; return -1; }
        if (f->kind == "short_read" && n > 1) { size_t k = 1 + static_cast<size_t>(f->arg) % (n - 1); return real(fd, buf, k); }
    }
    return real(fd, buf, n);
}

int truncate64(const char* path, off64_t len) {
    static auto real = sim::real_fn<int (*)(const char*, off64_t)>("truncate64");
    if (!sim::fs::in_scope(path)) return real(path, len);
    std::string p = sim::rel(path), cls = sim::fs::classify(p);
    int oc = sim::meta_outcome(cls);
    if (oc == 1) { errno = EIO; return -1; }
    sim::log_event("truncate", cls, p, len, 0, 0);
    ++S().counters["sys.truncate"];
    int r = real(path, len);
    if (oc == 2) sim::die("crash_after_truncate");
    return r;
}
int truncate(const char* path, off_t len) { return truncate64(path, len); }

int ftruncate64(int fd, off64_t len) {
    static auto real = sim::real_fn<int (*)(int, off64_t)>("ftruncate64");
    if (!sim::tracked(fd)) return real(fd, len);
    auto& e = S().fds[static_cast<size_t>(fd)];
    int oc = sim::meta_outcome(e.cls);
    if (oc == 1) { errno = EIO; return -1; }
    sim::log_event("ftruncate", e.cls, e.path, len, 0, 0);
    int r = real(fd, len);
    if (oc == 2) sim::die("crash_after_truncate");
    return r;
}
int ftruncate(int fd, off_t len) { return ftruncate64(fd, len); }

int rename(const char* from, const char* to) {
    static auto real = sim::real_fn<int (*)(const char*, const char*)>("rename");
    if (!sim::fs::in_scope(from) && !sim::fs::in_scope(to)) return real(from, to);
    std::string p = sim::rel(from), q = sim::rel(to), cls = sim::fs::classify(q);
    int oc = sim::meta_outcome(cls);
    if (oc == 1) { errno = EIO; return -1; }
    sim::log_event("rename", cls, p + "->" + q, 0, 0, 0);
    ++S().counters["sys.rename"];
    int r = real(from, to);
    if (oc == 2) sim::die("crash_after_rename");
    sim::run_hook("rename", cls, q);
    return r;
}

int unlink(const char* path) {
    if (!sim::fs::in_scope(path)) return static_cast<int>(syscall(SYS_unlink, path));
    std::string p = sim::rel(path), cls = sim::fs::classify(p);
    struct stat st;
    if (::stat(path, &st)) { errno = ENOENT; return -1; }     // nothing to remove: not a mutation
    int oc = sim::meta_outcome(cls);
    if (oc == 1) { errno = EIO; return -1; }
    sim::log_event("unlink", cls, p, 0, 0, 0);
    ++S().counters["sys.unlink"];
    int r = static_cast<int>(syscall(SYS_unlink, path));
    if (oc == 2) sim::die("crash_after_unlink");
    sim::run_hook("unlink", cls, p);
    return r;
}
int remove(const char* path) {
    static auto real = sim::real_fn<int (*)(const char*)>("remove");
    if (!sim::fs::in_scope(path)) return real(path);
    struct stat st;
    if (!::stat(path, &st) && S_ISDIR(st.st_mode)) return real(path);
    return unlink(path);
}

// ---- clocks -------------------------------------------------------------------------
int clock_gettime(clockid_t id, struct timespec* ts) {
    auto& s = S();
    if (s.clk_on && id == CLOCK_REALTIME) {
        ++s.clk_reads;
        double w = s.wall;
        ts->tv_sec = static_cast<time_t>(w);
        ts->tv_nsec = static_cast<long>((w - static_cast<double>(ts->tv_sec)) * 1e9);
        return 0;
    }
    return static_cast<int>(syscall(SYS_clock_gettime, id, ts));
}
time_t time(time_t* out) {
    auto& s = S();
    time_t t;
    if (s.clk_on) { ++s.clk_reads; t = static_cast<time_t>(s.wall); }
    else { struct timespec ts; syscall(SYS_clock_gettime, CLOCK_REALTIME, &ts); t = ts.tv_sec; }
    if (out) *out = t;
    return t;
}
int gettimeofday(struct timeval* tv, void*) {
    auto& s = S();
    if (s.clk_on) { ++s.clk_reads; tv->tv_sec = static_cast<time_t>(s.wall); tv->tv_usec = static_cast<suseconds_t>((s.wall - static_cast<double>(tv->tv_sec)) * 1e6); return 0; }
    struct timespec ts; syscall(SYS_clock_gettime, CLOCK_REALTIME, &ts);
    tv->tv_sec = ts.tv_sec; tv->tv_usec = ts.tv_nsec / 1000;
    return 0;
}

// sleeps: under the simulated clock a sleep costs nothing, advances simulated time and is a scheduling point (the
// syscall hook runs: whoever shares the files with the sleeper may make progress, e.g. the writer an ESMRY reader waits for)
static int sim_sleep(const struct timespec* req) {
    auto& s = S();
    if (!req || req->tv_sec < 0 || req->tv_nsec < 0 || req->tv_nsec >= 1000000000L) { errno = EINVAL; return -1; }
    s.wall += static_cast<double>(req->tv_sec) + 1e-9 * static_cast<double>(req->tv_nsec);
    ++s.counters["clock.sleep"];
    sim::run_hook("sleep", "CLOCK", "");
    return 0;
}
int nanosleep(const struct timespec* req, struct timespec* rem) {
    auto& s = S();
    if (s.clk_on && !s.pass) { if (rem) { rem->tv_sec = 0; rem->tv_nsec = 0; } return sim_sleep(req); }
    return static_cast<int>(syscall(SYS_nanosleep, req, rem));
}
int clock_nanosleep(clockid_t id, int flags, const struct timespec* req, struct timespec* rem) {
    auto& s = S();
    if (s.clk_on && !s.pass && flags == 0) { if (rem) { rem->tv_sec = 0; rem->tv_nsec = 0; } return sim_sleep(req) == 0 ? 0 : EINVAL; }
    long rc = syscall(SYS_clock_nanosleep, id, flags, req, rem);
    return rc == 0 ? 0 : errno;
}


// ---- string-to-number over-read detector ---------------------------------------------------
// ASan does not intercept strtof/strtod; a call on an unterminated heap buffer reads on into whatever follows it and the
// parsed number then depends on process history (DESIGN 3.1, "heap garbage").  Under ASan the scan is checked against the
// shadow memory so that such a read is a deterministic, replayable sanitizer-class failure.
#if defined(__SANITIZE_ADDRESS__)
extern "C" int __asan_address_is_poisoned(void const volatile* addr);
static void check_number_string(const char* s, const char* fn) {
    const char* p = s;
    bool in_number = false;
    for (int n = 0; n < 4096; ++n, ++p) {
        if (__asan_address_is_poisoned(p)) {
            fprintf(stderr, "==%d==ERROR: AddressSanitizer: %s-unterminated-buffer-overread: the string handed to %s is not terminated inside its allocation (read %d bytes)\n", getpid(), fn, fn, n);
            void* frames[24]; (void)frames;
            __asan_describe_address(const_cast<char*>(p));
            __sanitizer_print_stack_trace();
            fflush(stderr);
            _exit(77);
        }
        const unsigned char c = static_cast<unsigned char>(*p);
        if (c == 0) return;
        if (isspace(c)) { if (in_number) return; continue; }      // leading blanks are skipped, a blank after the number ends the scan
        in_number = true;
        const bool numberish = isdigit(c) || c == '+' || c == '-' || c == '.' || strchr("eExXpPaAbBcCdDfFiInNtTyY()", c);
        if (!numberish) return;     // strtof stops here without looking further
    }
}
#else
static void check_number_string(const char*, const char*) {}
#endif

float strtof(const char* s, char** end) {
    static auto real = sim::real_fn<float (*)(const char*, char**)>("strtof");
    check_number_string(s, "strtof");
    return real(s, end);
}
double strtod(const char* s, char** end) {
    static auto real = sim::real_fn<double (*)(const char*, char**)>("strtod");
    check_number_string(s, "strtod");
    return real(s, end);
}

} // extern "C"
