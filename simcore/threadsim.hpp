// Simulated OpenMP thread team: see threadsim.cpp
#pragma once
#include "rng.hpp"
#include <cstdint>

namespace sim { namespace tsim {

struct Config {
    int threads = 1;               // team size T
    std::uint64_t seed = 1;        // seeds the pick sequence (which parked thread is released at each decision)
    long yield_every = 64;         // a scheduling decision at every ~yield_every-th yield point (distance drawn from the pick sequence)
};
struct Stats {
    long teams = 0, yield_points = 0, decisions = 0, switches = 0;
    Hash64 release_hash;           // hash of the release sequence = the interleaving
};

void configure(const Config& c);
const Stats& stats();
int threads_configured();
void maybe_yield();
void parallel(void (*fn)(void*), void* data, unsigned requested);
int thread_num();
int num_threads();
std::uint64_t picker_seed_mix(int tid);

}} // namespace sim::tsim
