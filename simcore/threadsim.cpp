// Simulated OpenMP thread team (DESIGN 3.5).  The harness defines GOMP_parallel / omp_get_* so that the one
// `#pragma omp parallel for` of the library runs on T real std::threads that are parked and released ONE AT A TIME;
// which thread runs next is decided at yield points (function entries of the translation units compiled with
// -finstrument-functions) from a seeded pick sequence, so an interleaving is a pure function of the plan.
#include "threadsim.hpp"

#include <condition_variable>
#include <cstdio>
#include <cstdlib>
#include <memory>
#include <mutex>
#include <thread>
#include <vector>

namespace sim { namespace tsim {

namespace {
struct Team {
    bool active = false;
    int n = 1;
    std::mutex mu;
    std::vector<std::unique_ptr<std::condition_variable>> cv;
    std::condition_variable main_cv;
    std::vector<bool> done;
    int current = -1;        // tid allowed to run; -1 = main
    int alive = 0;
};
Team T;
Config cfg;
Stats st;
Rng picker(1);
thread_local int my_tid = -1;
thread_local long countdown = 0;

// caller holds T.mu.  Choose the next runnable thread from the plan's sequence.
int pick_next() {
    std::vector<int> runnable;
    for (int t = 0; t < T.n; ++t) if (!T.done[static_cast<size_t>(t)]) runnable.push_back(t);
    if (runnable.empty()) return -1;
    int nx = runnable[picker.below(runnable.size())];
    st.release_hash.u64(static_cast<std::uint64_t>(nx) + 1);
    ++st.decisions;
    return nx;
}

void run_member(void (*fn)(void*), void* data, int tid) {
    my_tid = tid;
    countdown = static_cast<long>(1 + picker_seed_mix(tid) % static_cast<std::uint64_t>(cfg.yield_every > 0 ? cfg.yield_every : 1));
    {
        std::unique_lock<std::mutex> lk(T.mu);
        T.cv[static_cast<size_t>(tid)]->wait(lk, [&] { return T.current == tid; });
    }
    fn(data);
    std::unique_lock<std::mutex> lk(T.mu);
    T.done[static_cast<size_t>(tid)] = true;
    --T.alive;
    int nx = pick_next();
    T.current = nx;
    if (nx >= 0) T.cv[static_cast<size_t>(nx)]->notify_one(); else T.main_cv.notify_one();
    my_tid = -1;
}
} // namespace

std::uint64_t picker_seed_mix(int tid) { return mix64(cfg.seed * 31 + static_cast<std::uint64_t>(tid) + 7); }

void configure(const Config& c) { cfg = c; st = Stats(); picker = Rng(mix64(c.seed ^ 0x7ea3ULL)); }
const Stats& stats() { return st; }
int threads_configured() { return cfg.threads; }

void maybe_yield() {
    if (my_tid < 0 || !T.active) return;
    ++st.yield_points;
    if (--countdown > 0) return;
    std::unique_lock<std::mutex> lk(T.mu);
    // next decision distance: plan-derived, geometric-ish around yield_every
    countdown = 1 + static_cast<long>(picker.below(static_cast<std::uint64_t>(2 * (cfg.yield_every > 0 ? cfg.yield_every : 1))));
    int nx = pick_next();
    if (nx == my_tid || nx < 0) return;
    ++st.switches;
    const int me = my_tid;
    T.current = nx;
    T.cv[static_cast<size_t>(nx)]->notify_one();
    T.cv[static_cast<size_t>(me)]->wait(lk, [&] { return T.current == me; });
}

void parallel(void (*fn)(void*), void* data, unsigned requested) {
    int n = cfg.threads > 0 ? cfg.threads : 1;
    (void)requested;
    if (n <= 1 || T.active) { ++st.teams; fn(data); return; }     // T = 1 (or a nested region): the caller runs the body itself
    ++st.teams;
    T.n = n; T.done.assign(static_cast<size_t>(n), false); T.cv.clear();
    for (int t = 0; t < n; ++t) T.cv.push_back(std::make_unique<std::condition_variable>());
    T.alive = n; T.current = -1; T.active = true;
    std::vector<std::thread> th;
    for (int t = 0; t < n; ++t) th.emplace_back(run_member, fn, data, t);
    {
        std::unique_lock<std::mutex> lk(T.mu);
        int first = pick_next();
        T.current = first;
        T.cv[static_cast<size_t>(first)]->notify_one();
        T.main_cv.wait(lk, [&] { return T.alive == 0; });
    }
    for (auto& x : th) x.join();
    T.active = false; T.n = 1;
}

int thread_num() { return my_tid < 0 ? 0 : my_tid; }
int num_threads() { return T.active ? T.n : 1; }

}} // namespace sim::tsim

// ---- the symbols the compiler-generated code calls ------------------------------------------------
extern "C" {
__attribute__((no_instrument_function)) int omp_get_thread_num(void) { return sim::tsim::thread_num(); }
__attribute__((no_instrument_function)) int omp_get_num_threads(void) { return sim::tsim::num_threads(); }
__attribute__((no_instrument_function)) int omp_get_max_threads(void) { return sim::tsim::threads_configured() > 0 ? sim::tsim::threads_configured() : 1; }
__attribute__((no_instrument_function)) void GOMP_parallel(void (*fn)(void*), void* data, unsigned num_threads, unsigned flags) { (void)flags; sim::tsim::parallel(fn, data, num_threads); }
__attribute__((no_instrument_function)) void GOMP_barrier(void) { if (sim::tsim::num_threads() > 1) { fprintf(stderr, "threadsim: GOMP_barrier inside a simulated team is not supported\n"); _Exit(2); } }
__attribute__((no_instrument_function)) void GOMP_critical_start(void) { fprintf(stderr, "threadsim: unsupported GOMP entry GOMP_critical_start\n"); _Exit(2); }
__attribute__((no_instrument_function)) void GOMP_critical_end(void) { fprintf(stderr, "threadsim: unsupported GOMP entry GOMP_critical_end\n"); _Exit(2); }
__attribute__((no_instrument_function)) void GOMP_atomic_start(void) { fprintf(stderr, "threadsim: unsupported GOMP entry GOMP_atomic_start\n"); _Exit(2); }
__attribute__((no_instrument_function)) void GOMP_atomic_end(void) { fprintf(stderr, "threadsim: unsupported GOMP entry GOMP_atomic_end\n"); _Exit(2); }
__attribute__((no_instrument_function)) bool GOMP_loop_static_start(long, long, long, long, long*, long*) { fprintf(stderr, "threadsim: unsupported GOMP entry GOMP_loop_static_start\n"); _Exit(2); }
__attribute__((no_instrument_function)) bool GOMP_loop_dynamic_start(long, long, long, long, long*, long*) { fprintf(stderr, "threadsim: unsupported GOMP entry GOMP_loop_dynamic_start\n"); _Exit(2); }
__attribute__((no_instrument_function)) void GOMP_parallel_loop_dynamic(void (*)(void*), void*, unsigned, long, long, long, long, unsigned) { fprintf(stderr, "threadsim: unsupported GOMP entry GOMP_parallel_loop_dynamic\n"); _Exit(2); }
__attribute__((no_instrument_function)) void __cyg_profile_func_enter(void*, void*) { sim::tsim::maybe_yield(); }
__attribute__((no_instrument_function)) void __cyg_profile_func_exit(void*, void*) {}
}
