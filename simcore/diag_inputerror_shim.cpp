// DIAGNOSTIC ONLY (never linked into a registered check): replaces OpmInputError's message
// formatting, which fmt 12 rejects on this image, so that the reason of an input error in a
// generated deck can be read while developing the generator.
#include <opm/common/utility/OpmInputError.hpp>
#include <string>
namespace Opm {
static std::string loc(const KeywordLocation& l) { return "keyword " + l.keyword + " in " + l.filename + " line " + std::to_string(l.lineno); }
std::string OpmInputError::formatException(const std::exception& e, const KeywordLocation& l) { return "Problem with " + loc(l) + "\n" + e.what(); }
std::string OpmInputError::format(const std::string& f, const KeywordLocation& l) { return f + " [" + loc(l) + "]"; }
std::string OpmInputError::formatSingle(const std::string& reason, const KeywordLocation& l) { return "Problem with " + loc(l) + "\n" + reason; }
std::string OpmInputError::formatMultiple(const std::string& reason, const std::vector<KeywordLocation>& ls) { std::string s = "Problem with keywords"; for (auto& l : ls) s += "\n  " + loc(l); return s + "\n" + reason; }
}
