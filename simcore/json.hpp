// Minimal JSON value used for plans (= replay files), result lines and evidence.
// Objects keep insertion order so that a dumped plan is byte-stable.
#pragma once
#include <cstdint>
#include <cstdio>
#include <cstdlib>
#include <cstring>
#include <cmath>
#include <map>
#include <stdexcept>
#include <string>
#include <utility>
#include <vector>

namespace sim {

class Json {
public:
    enum Kind { Null, Bool, Int, Real, Str, Arr, Obj };
    Kind kind = Null;
    bool b = false;
    std::int64_t i = 0;
    double d = 0;
    std::string s;
    std::vector<Json> a;
    std::vector<std::pair<std::string, Json>> o;

    Json() = default;
    Json(bool v) : kind(Bool), b(v) {}
    Json(int v) : kind(Int), i(v) {}
    Json(unsigned v) : kind(Int), i(v) {}
    Json(long v) : kind(Int), i(v) {}
    Json(long long v) : kind(Int), i(v) {}
    Json(unsigned long v) : kind(Int), i(static_cast<std::int64_t>(v)) {}
    Json(unsigned long long v) : kind(Int), i(static_cast<std::int64_t>(v)) {}
    Json(double v) : kind(Real), d(v) {}
    Json(const char* v) : kind(Str), s(v) {}
    Json(const std::string& v) : kind(Str), s(v) {}

    static Json array() { Json j; j.kind = Arr; return j; }
    static Json object() { Json j; j.kind = Obj; return j; }

    bool is_null() const { return kind == Null; }
    bool is_obj() const { return kind == Obj; }
    bool is_arr() const { return kind == Arr; }

    // object access
    Json& operator[](const std::string& k) {
        if (kind == Null) kind = Obj;
        if (kind != Obj) throw std::logic_error("json: not an object (key " + k + ")");
        for (auto& kv : o) if (kv.first == k) return kv.second;
        o.emplace_back(k, Json());
        return o.back().second;
    }
    const Json& at(const std::string& k) const {
        if (kind != Obj) throw std::logic_error("json: not an object (key " + k + ")");
        for (auto& kv : o) if (kv.first == k) return kv.second;
        throw std::out_of_range("json: missing key " + k);
    }
    bool has(const std::string& k) const {
        if (kind != Obj) return false;
        for (auto& kv : o) if (kv.first == k) return true;
        return false;
    }
    void erase(const std::string& k) {
        for (size_t n = 0; n < o.size(); ++n) if (o[n].first == k) { o.erase(o.begin() + n); return; }
    }
    // array access
    Json& operator[](size_t n) { return a.at(n); }
    const Json& operator[](size_t n) const { return a.at(n); }
    size_t size() const { return kind == Arr ? a.size() : kind == Obj ? o.size() : 0; }
    void push(Json v) { if (kind == Null) kind = Arr; a.push_back(std::move(v)); }

    // typed getters with defaults
    std::int64_t geti(const std::string& k, std::int64_t def = 0) const {
        if (!has(k)) return def;
        const Json& v = at(k);
        return v.kind == Int ? v.i : v.kind == Real ? static_cast<std::int64_t>(v.d) : v.kind == Bool ? v.b : def;
    }
    double getd(const std::string& k, double def = 0) const {
        if (!has(k)) return def;
        const Json& v = at(k);
        return v.kind == Real ? v.d : v.kind == Int ? static_cast<double>(v.i) : def;
    }
    bool getb(const std::string& k, bool def = false) const {
        if (!has(k)) return def;
        const Json& v = at(k);
        return v.kind == Bool ? v.b : v.kind == Int ? v.i != 0 : def;
    }
    std::string gets(const std::string& k, const std::string& def = "") const {
        if (!has(k)) return def;
        const Json& v = at(k);
        return v.kind == Str ? v.s : def;
    }
    std::int64_t as_i() const { return kind == Int ? i : kind == Real ? static_cast<std::int64_t>(d) : kind == Bool ? b : 0; }
    double as_d() const { return kind == Real ? d : kind == Int ? static_cast<double>(i) : 0; }
    const std::string& as_s() const { return s; }

    bool operator==(const Json& r) const { return dump() == r.dump(); }
    bool operator!=(const Json& r) const { return !(*this == r); }

    std::string dump(int indent = -1) const { std::string out; dump_to(out, indent, 0); return out; }

    static Json parse(const std::string& text) {
        size_t p = 0;
        Json v = parse_value(text, p);
        skip_ws(text, p);
        if (p != text.size()) throw std::runtime_error("json: trailing characters");
        return v;
    }
    static Json parse_file(const std::string& path) {
        FILE* f = std::fopen(path.c_str(), "rb");
        if (!f) throw std::runtime_error("json: cannot open " + path);
        std::string t; char buf[65536]; size_t n;
        while ((n = std::fread(buf, 1, sizeof buf, f)) > 0) t.append(buf, n);
        std::fclose(f);
        return parse(t);
    }

private:
    static void esc(std::string& out, const std::string& v) {
        out += '"';
        for (unsigned char c : v) {
            switch (c) {
            case '"': out += "\\\""; break;
            case '\\': out += "\\\\"; break;
            case '\n': out += "\\n"; break;
            case '\r': out += "\\r"; break;
            case '\t': out += "\\t"; break;
            default:
                if (c < 0x20 || c >= 0x7f) { char b[8]; std::snprintf(b, sizeof b, "\\u%04x", c); out += b; }
                else out += static_cast<char>(c);
            }
        }
        out += '"';
    }
    void dump_to(std::string& out, int indent, int depth) const {
        auto nl = [&](int dd) { if (indent >= 0) { out += '\n'; out.append(static_cast<size_t>(indent * dd), ' '); } };
        switch (kind) {
        case Null: out += "null"; break;
        case Bool: out += b ? "true" : "false"; break;
        case Int: out += std::to_string(i); break;
        case Real: {
            if (std::isnan(d)) { out += "\"nan\""; break; }
            if (std::isinf(d)) { out += d > 0 ? "\"inf\"" : "\"-inf\""; break; }
            char buf[40]; std::snprintf(buf, sizeof buf, "%.17g", d);
            out += buf;
            if (!std::strpbrk(buf, ".eEn")) out += ".0";
            break;
        }
        case Str: esc(out, s); break;
        case Arr: {
            out += '[';
            bool simple = true;
            for (auto& v : a) if (v.kind == Arr || v.kind == Obj) simple = false;
            for (size_t n = 0; n < a.size(); ++n) {
                if (n) out += ',';
                if (!simple) nl(depth + 1);
                a[n].dump_to(out, indent, depth + 1);
            }
            if (!simple && !a.empty()) nl(depth);
            out += ']';
            break;
        }
        case Obj: {
            out += '{';
            for (size_t n = 0; n < o.size(); ++n) {
                if (n) out += ',';
                nl(depth + 1);
                esc(out, o[n].first);
                out += ':';
                if (indent >= 0) out += ' ';
                o[n].second.dump_to(out, indent, depth + 1);
            }
            if (!o.empty()) nl(depth);
            out += '}';
            break;
        }
        }
    }
    static void skip_ws(const std::string& t, size_t& p) {
        while (p < t.size() && (t[p] == ' ' || t[p] == '\n' || t[p] == '\t' || t[p] == '\r')) ++p;
    }
    static Json parse_value(const std::string& t, size_t& p) {
        skip_ws(t, p);
        if (p >= t.size()) throw std::runtime_error("json: unexpected end");
        char c = t[p];
        if (c == '{') {
            Json j = object(); ++p; skip_ws(t, p);
            if (p < t.size() && t[p] == '}') { ++p; return j; }
            for (;;) {
                skip_ws(t, p);
                Json k = parse_value(t, p);
                if (k.kind != Str) throw std::runtime_error("json: key must be string");
                skip_ws(t, p);
                if (p >= t.size() || t[p] != ':') throw std::runtime_error("json: expected ':'");
                ++p;
                Json v = parse_value(t, p);
                j.o.emplace_back(k.s, std::move(v));
                skip_ws(t, p);
                if (p < t.size() && t[p] == ',') { ++p; continue; }
                if (p < t.size() && t[p] == '}') { ++p; return j; }
                throw std::runtime_error("json: expected ',' or '}'");
            }
        }
        if (c == '[') {
            Json j = array(); ++p; skip_ws(t, p);
            if (p < t.size() && t[p] == ']') { ++p; return j; }
            for (;;) {
                j.a.push_back(parse_value(t, p));
                skip_ws(t, p);
                if (p < t.size() && t[p] == ',') { ++p; continue; }
                if (p < t.size() && t[p] == ']') { ++p; return j; }
                throw std::runtime_error("json: expected ',' or ']'");
            }
        }
        if (c == '"') {
            ++p; std::string out;
            while (p < t.size() && t[p] != '"') {
                if (t[p] == '\\') {
                    ++p; if (p >= t.size()) break;
                    switch (t[p]) {
                    case 'n': out += '\n'; break; case 't': out += '\t'; break; case 'r': out += '\r'; break;
                    case 'b': out += '\b'; break; case 'f': out += '\f'; break;
                    case 'u': {
                        if (p + 4 >= t.size()) throw std::runtime_error("json: bad \\u");
                        unsigned v = static_cast<unsigned>(std::strtoul(t.substr(p + 1, 4).c_str(), nullptr, 16));
                        out += static_cast<char>(v & 0xff); p += 4; break;
                    }
                    default: out += t[p];
                    }
                    ++p;
                } else out += t[p++];
            }
            if (p >= t.size()) throw std::runtime_error("json: unterminated string");
            ++p;
            if (out == "nan") return Json(std::nan(""));
            if (out == "inf") return Json(HUGE_VAL);
            if (out == "-inf") return Json(-HUGE_VAL);
            return Json(out);
        }
        if (!t.compare(p, 4, "true")) { p += 4; return Json(true); }
        if (!t.compare(p, 5, "false")) { p += 5; return Json(false); }
        if (!t.compare(p, 4, "null")) { p += 4; return Json(); }
        size_t q = p; bool real = false;
        if (q < t.size() && (t[q] == '-' || t[q] == '+')) ++q;
        while (q < t.size() && (std::isdigit(static_cast<unsigned char>(t[q])) || t[q] == '.' || t[q] == 'e' || t[q] == 'E' || t[q] == '-' || t[q] == '+')) {
            if (t[q] == '.' || t[q] == 'e' || t[q] == 'E') real = true;
            ++q;
        }
        if (q == p) throw std::runtime_error("json: unexpected character");
        std::string num = t.substr(p, q - p); p = q;
        if (real) return Json(std::strtod(num.c_str(), nullptr));
        return Json(static_cast<long long>(std::strtoll(num.c_str(), nullptr, 10)));
    }
};

} // namespace sim
