// One integer decides everything: SplitMix64 root, per-run streams derived by mixing.
// The PRNG is consulted only while a plan is *generated*; executing a plan never draws.
#pragma once
#include <cstdint>
#include <cstddef>
#include <string>
#include <vector>

namespace sim {

inline std::uint64_t mix64(std::uint64_t z) {
    z += 0x9e3779b97f4a7c15ULL;
    z = (z ^ (z >> 30)) * 0xbf58476d1ce4e5b9ULL;
    z = (z ^ (z >> 27)) * 0x94d049bb133111ebULL;
    return z ^ (z >> 31);
}

class Rng {
public:
    explicit Rng(std::uint64_t seed = 0) : s(seed) {}
    std::uint64_t next() { s += 0x9e3779b97f4a7c15ULL; std::uint64_t z = s;
        z = (z ^ (z >> 30)) * 0xbf58476d1ce4e5b9ULL; z = (z ^ (z >> 27)) * 0x94d049bb133111ebULL; return z ^ (z >> 31); }
    // uniform in [0, n)
    std::uint64_t below(std::uint64_t n) { return n ? next() % n : 0; }
    // uniform in [lo, hi]
    std::int64_t range(std::int64_t lo, std::int64_t hi) { return hi <= lo ? lo : lo + static_cast<std::int64_t>(below(static_cast<std::uint64_t>(hi - lo + 1))); }
    double unit() { return static_cast<double>(next() >> 11) * (1.0 / 9007199254740992.0); }
    double real(double lo, double hi) { return lo + (hi - lo) * unit(); }
    bool chance(double p) { return unit() < p; }
    template <class T> const T& pick(const std::vector<T>& v) { return v[below(v.size())]; }
    template <class T, size_t N> const T& pick(const T (&v)[N]) { return v[below(N)]; }
    Rng fork(std::uint64_t tag) { return Rng(mix64(next() ^ mix64(tag))); }
private:
    std::uint64_t s;
};

// FNV-1a 64 for event-log and content digests (not cryptographic; collisions irrelevant here).
struct Hash64 {
    std::uint64_t h = 0xcbf29ce484222325ULL;
    void bytes(const void* p, size_t n) { auto* c = static_cast<const unsigned char*>(p); for (size_t k = 0; k < n; ++k) { h ^= c[k]; h *= 0x100000001b3ULL; } }
    void u64(std::uint64_t v) { bytes(&v, sizeof v); }
    void str(const std::string& s) { u64(s.size()); bytes(s.data(), s.size()); }
    void dbl(double v) { bytes(&v, sizeof v); }
};
inline std::uint64_t digest(const void* p, size_t n) { Hash64 h; h.bytes(p, n); return h.h; }
inline std::string hex64(std::uint64_t v) { static const char* d = "0123456789abcdef"; std::string s(16, '0'); for (int k = 15; k >= 0; --k) { s[static_cast<size_t>(k)] = d[v & 15]; v >>= 4; } return s; }

} // namespace sim
