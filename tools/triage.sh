#!/bin/bash
# development helper: run N seeds of a harness binary with all violations "known" and summarise classes
bin=$1; n=${2:-100}; shift 2
$bin run --seed ${SEED:-1} --from 0 --count $n --tier ${TIER:-quick} --known '*' "$@" 2>/tmp/triage.err | python3 -c "
import sys,json,collections
c=collections.Counter(); ex={}
runs=0
for l in sys.stdin:
    if not l.startswith('{'): continue
    j=json.loads(l)
    if j.get('type')!='run': continue
    runs+=1
    for v in j.get('violations',[]):
        key=v['cls']+' :: '+v['detail'].split(chr(10))[-1][:150]
        c[key]+=1; ex.setdefault(key,(j['run'],v['detail'][:500]))
print('runs',runs)
for k,n in c.most_common(40): print(n,k,'  e.g. run',ex[k][0])
"
tail -5 /tmp/triage.err
