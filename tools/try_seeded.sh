#!/bin/bash
# development helper: apply a stored seeded change to /repo, run the named checks (quick tier), undo the change.
# usage: tools/try_seeded.sh <seeded-id> <check-id>...     (never leaves /repo modified; rebuilds the tree afterwards on next check)
set -u
id=$1; shift
p=/verif/seeded/$id/patch.diff
git -C /repo diff --quiet || { echo "/repo is not clean"; exit 2; }
git -C /repo apply "$p" || exit 2
trap 'git -C /repo checkout -- . ; echo "[try_seeded] /repo restored"' EXIT
for c in "$@"; do
  echo "=== $id vs ./check $c quick"
  VERIF_SEED=${VERIF_SEED:-1} /verif/check "$c" quick 2>&1 | grep -E "VIOLATION|KNOWN-FINDING|HARNESS|runs|exit|detail|class" | head -12
  echo "exit=${PIPESTATUS[0]}"
done
