#!/bin/bash
# Recompile the two translation units that contain / are called from the library's only OpenMP loop with
# -finstrument-functions (yield points for the simulated thread team).  Objects go to <tree>/hobj/inst_*.o and are put
# in front of libopmcommon.a on the link line of the C13 harness.
set -e
tree=${1:-san}
T=/verif/build/$tree
mkdir -p $T/hobj
for src in opm/input/eclipse/EclipseState/Grid/EclipseGrid.cpp opm/common/utility/numeric/calculateCellVol.cpp; do
  obj=$T/hobj/inst_$(basename $src .cpp).o
  if [ ! -f $obj ] || [ /repo/$src -nt $obj ] || [ $T/lib/libopmcommon.a -nt $obj ]; then
    cmd=$(ninja -C $T -t commands CMakeFiles/opmcommon.dir/$src.o | tail -n 1)
    [ -n "$cmd" ] || { echo "no compile command for $src" >&2; exit 2; }
    # same flags as the library; different output, plus instrumentation
    cmd=$(echo "$cmd" | sed -E "s# -o CMakeFiles/opmcommon.dir/[^ ]+\.o # -o $obj #; s# -MD -MT [^ ]+ -MF [^ ]+ # #")
    (cd $T && eval "$cmd -finstrument-functions -finstrument-functions-exclude-file-list=/usr/include,/usr/lib,/root/miniconda")
  fi
done
