#!/bin/bash
# MANIFEST.setup_cmd: build the sanitizer tree of /repo and every harness executable, offline.
set -e
cd /verif
tools/build_tree.sh san
python3 - <<'PY'
import subprocess, sys
sys.path.insert(0, "/verif/tools")
from checks_config import CHECKS, COMMON_SRCS
seen = set()
# all harness objects of the sanitizer tree first, in parallel; the per-binary calls below then only link
allsrcs = sorted({s for cfg in CHECKS.values() for spec in cfg["bins"] if spec["quick"].get("tree", "san") == "san" for s in spec["srcs"]} | set(COMMON_SRCS))
subprocess.check_call(["/verif/tools/build_harness.sh", "san", "--objects-only"] + allsrcs, cwd="/verif")
for pid, cfg in sorted(CHECKS.items()):
    for spec in cfg["bins"]:
        for tier in ("quick",):
            tree = spec[tier].get("tree", "san")
            if (tree, spec["name"]) in seen: continue
            seen.add((tree, spec["name"]))
            if tree != "san":
                subprocess.check_call(["/verif/tools/build_tree.sh", tree])
            if spec.get("instrumented"): subprocess.check_call(["/verif/tools/build_instrumented.sh", tree])
            cmd = ["/verif/tools/build_harness.sh", tree, spec["name"]] + spec["srcs"] + COMMON_SRCS
            if spec.get("extra"): cmd += ["--"] + spec["extra"]
            subprocess.check_call(cmd, cwd="/verif")
print("setup: ok")
PY
