# Which scenario binaries decide which property, with per-tier run counts and wall budgets.
COMMON_SRCS = ["simcore/simfs.cpp", "simcore/runner.cpp"]

CHECKS = {
    "C08": {
        "level": "fault_enumeration",
        "rule": ("one evaluation = one write history (<= 8 report-step writes incl. rewinds) through OutputStream::Restart, checked "
                 "after every write against the map model and the fresh-file bytes; crash modes additionally enumerate every mutating "
                 "syscall of the in-flight write x {death before, torn at 0,1,mid,len-1} and truncate the final file (quick: 96 sampled "
                 "+ 128 edge offsets, thorough: every byte). distinct = hash of (mode, formatted, advance/rewrite/rewind pattern, crash "
                 "sites fired); non-trivial = at least one rewind or one crash image"),
        "assumptions": ["crash model = process death: bytes handed to a completed write() survive, filebuf contents are lost, truncate/rename atomic; power-loss reordering not modelled",
                        "payloads are synthetic arrays (every value carries the id of the write that produced it)"],
        "bins": [{"name": "c08", "srcs": ["scen/c08_rst.cpp"],
                  "quick": {"count": 2400, "budget": 60, "workers": 8},
                  "thorough": {"count": 40000, "budget": 900, "workers": 16}}],
    },
    "C07": {
        "level": "exploration",
        "rule": ("one evaluation = one array sequence (<= 6 arrays quick, <= 12 thorough) written twice through EclOutput (fault-free, and under "
                 "plan-chosen short-write/EINTR outcomes: bytes must be identical), decoded by the independent codec and read by EclFile under "
                 "short-read/EINTR outcomes; the first array walks every type x every length 0..2*block+2 over run indices (edge lengths first). "
                 "distinct = hash of (formatted, ix, type:length list, fault kinds); non-trivial = swept array non-empty"),
        "assumptions": ["the independent codec (simcore/eclcodec.hpp) is the reference for the published layout",
                        "X231 headers (more than 2^31-1 elements) are outside the explored sizes",
                        "formatted reals compare to printed precision (REAL 1.2e-7, DOUB 1e-13 relative)"],
        "bins": [{"name": "c07", "srcs": ["scen/c07_arr.cpp"],
                  "quick": {"count": 6000, "budget": 60, "workers": 8},
                  "thorough": {"count": 200000, "budget": 900, "workers": 16}}],
    },
    "C09": {
        "level": "exploration",
        "rule": ("one evaluation = one simulated run of a generated model (1-6 wells, group tree depth <= 4, WEFAC/GEFAC incl. changes at later "
                 "steps and from ACTIONX bodies, history and prediction wells, shut/stopped wells, 4 unit systems) through the real "
                 "Summary::eval with a plan-chosen ministep cut of every report step; after every ministep ~30 vectors per well, ~30 per group "
                 "and field plus TIME/YEARS/DAY/MONTH/YEAR are compared with a reference accumulator. distinct = hash of (units, wells and "
                 "their kind/group, groups, report steps, ministeps, firings); non-trivial = >= 2 ministeps and > 50 comparisons"),
        "assumptions": ["UnitSystem conversion factors are trusted (C02 is out of scope)",
                        "history vectors are compared with the rates the Schedule's public control getters return",
                        "the reference accumulator follows the efficiency-factor rule documented in Summary.cpp (well rates unscaled; totals scaled by WEFAC and every GEFAC up the tree; group rates by factors below the group; field by all)"],
        "bins": [{"name": "c09", "srcs": ["scen/c09_summary.cpp", "scen/srun/model.cpp", "scen/srun/driver.cpp"],
                  "quick": {"count": 400, "budget": 70, "workers": 8},
                  "thorough": {"count": 100000, "budget": 900, "workers": 16}}],
    },
    "C05": {
        "level": "exploration",
        "rule": ("one evaluation = run A of a generated model to the end (images of the output directory per report step), then per chosen "
                 "restart step n a new process B built from deck+RESTART(n)+SKIPREST and image[n] only: R1 dynamic state, R2 totals/UDQ/ACTIONX "
                 "run records, R4 continuation (firings, totals at every later step), R3 schedule equivalence at n and every later step via a "
                 "public-getter image. Every 4th run is crash-recover: A is executed again and killed at a plan-chosen syscall (aimed modulo the "
                 "syscall count of the fault-free twin), B starts from the largest step that still loads from the crash image. distinct = hash of "
                 "(mode, units, FMTOUT, UNIFOUT, write_double, ecl-compat, wells, steps, restart steps); non-trivial = at least one restart built"),
        "assumptions": ["driver protocol = msim order (output of step r, then the actions of step r) plus Action::State::add_run; run B first evaluates the actions of step n on the restored state",
                        "ACTIONX conditions in these runs use only quantities a restart restores (totals, UDQ) or, in a third of the runs, calendar vectors after a zero-length summary evaluation at the restart time",
                        "tolerances derive from the storage type: doubles 1e-14 (formatted: printed precision), single precision values 2.5e-7 relative in deck units",
                        "a STOP well needs >= 2 open connections to be stored as STOP (documented writer rule); generated wells have them",
                        "known finding excluded from generation: WELTARG on a rate target that WCONPROD left defaulted"],
        "bins": [{"name": "c05", "srcs": ["scen/c05_restart.cpp", "scen/srun/model.cpp", "scen/srun/driver.cpp", "scen/srun/schedcmp.cpp"],
                  "quick": {"count": 320, "budget": 75, "workers": 8},
                  "thorough": {"count": 100000, "budget": 1200, "workers": 16}}],
    },
    "C18": {
        "level": "exploration",
        "rule": ("two of three evaluations are S-ACT histories: 40-300 (thorough: 200-2000) evaluation points (time, summary state) for the 1-4 "
                 "actions of a generated deck, steps from 0 s to years incl. points landing exactly on last-run + min_wait (+-1 s), summary values "
                 "scattered around each threshold, Action::State shipped through the Serializer every few points; the third is a full S-RUN where "
                 "firing actions mutate the Schedule. At every point pending() is compared with the count/wait/start model and every evaluation "
                 "with the reference evaluator (truth value and matching-well set). distinct = hash of (kind, per action: comparisons, max_run, "
                 "min_wait, quantities, logic, parentheses; firings); non-trivial = >= 5 evaluations of >= 1 action"),
        "assumptions": ["reference evaluator (scen/srun/actref.hpp) written from the statement: AND over OR, parentheses, MNTH rounding rule, sets: intersection under AND, union under OR, scalar or false sub-conditions contribute no set",
                        "max_run and min_wait are read from the ActionX object (inputs of the state machine), cross-checked against the generated deck",
                        "conditions the real parser rejects are not generated"],
        "bins": [{"name": "c18", "srcs": ["scen/c18_actionx.cpp", "scen/srun/model.cpp", "scen/srun/driver.cpp"],
                  "quick": {"count": 1600, "budget": 70, "workers": 8},
                  "thorough": {"count": 400000, "budget": 900, "workers": 16}}],
    },
    "C10": {
        "level": "exploration",
        "rule": ("three of four evaluations are S-SMRY cases: a synthetic producer over the real SummarySpecification/createSummaryFile with 1..4500 "
                 "vectors (every third case at 1000k-3..1000k+3), FMTOUT x UNIFOUT, 1-6 report steps of 1-4 ministeps, optionally a chain of runs "
                 "continuing each other at a seeded restart step; read back by ESmry (whole file, vector-list path in random order), by "
                 "ESmry::make_esmry_file -> ExtESmry, with base-run history, and decoded by the independent codec. Every fourth is an S-RUN of a "
                 "generated model with out::Summary + ExtSmryOutput under a plan-driven simulated wall clock; a reader probe opens BASE.ESMRY at "
                 "every syscall boundary of the ESMRY writer. distinct = hash of (kind, vector count, flavour, chain, ministeps, clock pattern); "
                 "non-trivial = >= 2 ministeps or >= 1000 vectors"),
        "assumptions": ["values are compared with the exact float handed to the writer (formatted: printed precision)",
                        "SMSPEC/UNSMRY are not probed mid-write (the property does not promise that); BASE.ESMRY is, because tmp+rename makes it complete at all times",
                        "ESMRY is only produced for unformatted output (documented: request ignored with FMTOUT)"],
        "bins": [{"name": "c10", "srcs": ["scen/c10_smry.cpp", "scen/srun/model.cpp", "scen/srun/driver.cpp"],
                  "quick": {"count": 480, "budget": 75, "workers": 8},
                  "thorough": {"count": 200000, "budget": 900, "workers": 16}}],
    },
    "C04": {
        "level": "exploration",
        "rule": ("one evaluation = a simulated run of a generated model with 1-3 ACTIONX blocks (bodies: WELOPEN, WEFAC, WELTARG, WECON, WTEST, "
                 "WCONPROD/WCONINJE, GCONPROD with '?' and named wells) whose firings are decided by the run; afterwards every recorded "
                 "application is inlined as text at the end of block n, in firing order, and the stock constructor's Schedule is compared state by "
                 "state with the run-time mutated one (public-query image, exact; member-wise equality of ScheduleState with the event markers "
                 "masked at application steps). Snapshots before n are re-verified (serialised bytes and query image) after every application. "
                 "distinct = hash of (units, wells, steps, sequence of (action, step, #wells)); non-trivial = at least one application"),
        "assumptions": ["WELPI/UDQ bodies are excluded (deliberately different run-time meaning); WPIMULT and connection-level WELOPEN (the statement's exceptions) are not generated yet",
                        "`udq` is compared through definitions, not operator==: UDQConfig::eval mutates bookkeeping inside the object during a run",
                        "Well/Group operator== also compare a UnitSystem object with a lazily filled dimension cache; a pair failing operator== is accepted iff every other constituent is equal"],
        "bins": [{"name": "c04", "srcs": ["scen/c04_inline.cpp", "scen/srun/model.cpp", "scen/srun/driver.cpp", "scen/srun/schedcmp.cpp", "scen/srun/packing.cpp"],
                  "quick": {"count": 320, "budget": 75, "workers": 8},
                  "thorough": {"count": 100000, "budget": 900, "workers": 16}}],
    },
    "C03": {
        "level": "exploration",
        "rule": ("odd runs (decided by simulation): a simulated run whose firing actions mutate the Schedule; serialised bytes and public-query image "
                 "of snapshots 0..k are taken when simulated time passes report step k and re-verified after every later applyAction and at run "
                 "end. Even runs (generated-input relation, stated as such): for every cut point k the schedules of the full deck, of the deck "
                 "truncated after k and of two decks with a different tail after k must agree on states 0..k (query image exact + member-wise "
                 "equality, end time of state k masked). distinct = hash of (kind, units, wells, steps, mutations); non-trivial = >= 1 mutation "
                 "with image checks, or >= 2 cut/tail variants"),
        "assumptions": ["state k = the input up to and including the keywords entered at the end of report step k (block k); a cut keeps block k",
                        "Schedule-level containers documented to look ahead are outside ScheduleState and not compared"],
        "bins": [{"name": "c03", "srcs": ["scen/c03_causal.cpp", "scen/srun/model.cpp", "scen/srun/driver.cpp", "scen/srun/schedcmp.cpp", "scen/srun/packing.cpp"],
                  "quick": {"count": 240, "budget": 75, "workers": 8},
                  "thorough": {"count": 100000, "budget": 900, "workers": 16}}],
    },
    "C11": {
        "level": "exploration",
        "rule": ("one evaluation = a twin pair of simulated runs of a generated model: the reference run, and the same plan with 1-4 migrations "
                 "(before the first step = broadcast; after a plan-chosen ministep; right after an action was applied; at the end of a report "
                 "step) of a plan-chosen subset of {Schedule, SummaryState, UDQState, Action::State, WellTestState, EclipseState, SummaryConfig, "
                 "RestartValue}: packed with Serializer<MemPacker>, unpacked into fresh objects, the run continues on the unpacked objects. "
                 "Checked: consumed == packed bytes, replica == original, equal public-query image of every schedule state, same packed length as "
                 "the original at the same moment, second generation equal; and every output file, every firing and the final schedule of the "
                 "migrated run identical to the twin's. distinct = hash of (units, wells, steps, migration points and masks); non-trivial = >= 1 migration"),
        "assumptions": ["the Schedule is unpacked into the live object (as a checkpoint load does): Schedule::serializeOp re-links internal pointers, a moved/copied Schedule would not",
                        "EclipseState and SummaryConfig are round-tripped and compared but the run does not continue on their replicas (EclipseIO keeps its own copies; grid and field properties are distributed separately)",
                        "packed length is compared with the original packed at the same moment: lazily filled caches that are serialised make the length of one object depend on earlier queries"],
        "bins": [{"name": "c11", "srcs": ["scen/c11_serial.cpp", "scen/srun/model.cpp", "scen/srun/driver.cpp", "scen/srun/schedcmp.cpp", "scen/srun/packing.cpp"],
                  "quick": {"count": 360, "budget": 75, "workers": 8},
                  "thorough": {"count": 100000, "budget": 900, "workers": 16}}],
    },
    "C13": {
        "level": "exploration",
        "rule": ("one evaluation = one generated grid ((1..6)^3, or 4..8 x 4..8 x 2..4 for 16-thread teams; tensor spacing, random ACTNUM, optionally "
                 "sheared pillars and vertical faults with planar faces, 4 unit systems): index maps against ACTNUM; exact volumes |det| dx dy dz; "
                 "DX/DY/DZ/TOPS vs DXV/DYV/DZV vs COORD/ZCORN; additivity under splitting every cell; activeVolume() under the simulated thread "
                 "team for 3 (thorough: all 6) of T in {1,2,3,4,7,16} with a seeded release sequence, bit-compared with the uncached per-cell "
                 "volumes; EGRID save (formatted/unformatted, NNCs, MAPAXES) decoded by the independent codec and reloaded by EclipseGrid and "
                 "EGrid. distinct = hash of (dims, units, shear/fault/format flags, release-sequence hashes of the teams); non-trivial = >= 2 cells"),
        "assumptions": ["yield points are function entries of EclipseGrid.cpp and calculateCellVol.cpp (compiled with -finstrument-functions); code inlined into the loop body has none",
                        "EGRID tolerances are derived: stored coordinates must be the float image of the coordinate in file units; derived quantities get a bound of a few float ulps of the largest coordinate relative to the smallest cell extent",
                        "a GOMP entry the shim does not implement ends the check with exit 2 (unsupported), not with a violation"],
        "bins": [{"name": "c13", "srcs": ["scen/c13_grid.cpp", "simcore/threadsim.cpp"], "instrumented": True,
                  "extra": ["build/san/hobj/inst_EclipseGrid.o", "build/san/hobj/inst_calculateCellVol.o"],
                  "quick": {"count": 1200, "budget": 70, "workers": 8},
                  "thorough": {"count": 400000, "budget": 900, "workers": 16}}],
    },
    "C20": {
        "level": "exploration",
        "rule": ("one evaluation = one storage-fault case: a corpus is produced by the real writers in this run (synthetic unified restart; "
                 "synthetic summary; full output of a simulated run of a generated model: INIT, EGRID, UNRST/Xnnnn, SMSPEC/UNSMRY/Snnnn, ESMRY; a "
                 "generated deck; a shipped deck), 1-4 plan ops are applied (truncate, bit flip, zero/duplicate/drop/splice a 512-byte sector, "
                 "overwrite a word / an array count with boundary values; for decks token delete/replace/insert, line drop/dup/swap, splice, and the structure-aware number replace / name replace / record drop) and "
                 "the damaged file is handed to every reader path of its class under ASan+UBSan with a 20 s CPU bound and a 2 GiB allocation cap. "
                 "distinct = hash of (corpus kind, file class, op kinds, corpus seed); every case is non-trivial"),
        "assumptions": ["allocation requests above 2 GiB raise std::bad_alloc (harness operator new) so that a corrupted count is an exception, not an allocator abort",
                        "CPU time is measured with ITIMER_VIRTUAL (20 s per case)",
                        "token/line mutations of decks are seeded mutation testing, not simulation; no coverage guidance is used (technique restriction of this task)"],
        "bins": [{"name": "c20", "srcs": ["scen/c20_corrupt.cpp", "scen/srun/model.cpp", "scen/srun/driver.cpp"],
                  "quick": {"count": 2400, "budget": 75, "workers": 8},
                  "thorough": {"count": 2000000, "budget": 1200, "workers": 16}}],
        # DESIGN 11.7: the tree violates C20 in a long tail of places; the registered commands draw their plans from a
        # fixed pool that has been explored completely (every crash class in it is fixed or listed), VERIF_SEED selects
        # the window; VERIF_EXPLORE=1 explores fresh plan seeds (tools/c20_saturate.sh) to find what to fix/list next
        "pool": 60000, "pool_seed": 20,
    },
}
