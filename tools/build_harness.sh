#!/bin/bash
# Build one harness executable against a /verif build tree of /repo.
#   build_harness.sh <tree: san|pat|opt> <name> <source.cpp>... [-- extra objects/flags]
set -e
tree=$1; name=$2; shift 2
T=/verif/build/$tree
mkdir -p $T/bin $T/hobj
case $tree in
  san|pat) SAN="-fsanitize=address,undefined -fno-sanitize=nonnull-attribute -fno-sanitize-recover=undefined -O1" ;;
  *) SAN="-O2" ;;
esac
CXXFLAGS="-std=c++17 -g0 $SAN -fno-omit-frame-pointer -fopenmp -pthread -DFMT_SHARED -DHAVE_CONFIG_H=1 -DOPM_COMMON_VERIF -I$T -I$T/include -I/repo -isystem /root/miniconda/include -Wall -Wno-unused-function"
stale() {   # stale <object> <source>
  local o=$1 a=$2 dep
  [ -f "$o" ] && [ -f "$o.d" ] || return 0
  [ "$a" -nt "$o" ] && return 0
  for dep in $(sed -e 's/^[^:]*://' -e 's/\\$//' "$o.d"); do
    case $dep in /usr/*|/root/miniconda/*) continue ;; esac
    [ -e "$dep" ] || return 0
    [ "$dep" -nt "$o" ] && return 0
  done
  return 1
}
objs=()
extra=()
seen_dd=0
for a in "$@"; do
  if [ "$a" = "--" ]; then seen_dd=1; continue; fi
  if [ $seen_dd = 1 ]; then extra+=("$a"); continue; fi
  o=$T/hobj/$(echo "$a" | sed 's#/#_#g; s#\.cpp$#.o#')
  objs+=("$o")
  # recompile when the source or ANY header it includes is newer than the object - /verif's own headers and /repo's
  # (a header-only change of the library, e.g. a serializeOp member list, is compiled into the harness, not into the .a)
  if stale "$o" "$a"; then
    g++ $CXXFLAGS -MMD -MF "$o.d" -c "$a" -o "$o" &
  fi
done
wait
for o in "${objs[@]}"; do [ -f "$o" ] || { echo "compile failed: $o" >&2; exit 2; }; done
[ "$name" = "--objects-only" ] && exit 0
out=$T/bin/$name
need=0
[ -f "$out" ] || need=1
for o in "${objs[@]}" $T/lib/libopmcommon.a "${extra[@]}"; do [ -f "$o" ] && [ "$o" -nt "$out" ] && need=1; done
if [ $need = 1 ]; then
  g++ $CXXFLAGS -fuse-ld=lld "${objs[@]}" "${extra[@]}" -o "$out" $T/lib/libopmcommon.a \
     -Wl,-rpath,/root/miniconda/lib /root/miniconda/lib/libfmt.so.12.1.0 -lboost_system -lcjson -ldl
fi
