#!/usr/bin/env python3
"""Sensitivity self-test of the machinery (DESIGN 7.2): every stored breaking change (seeded/<id>/patch.diff, produced by
independent sub-agents, and mutants/*.patch, our own) is applied to /repo, the check(s) that are recorded to catch it are run in
the quick tier (or the tier recorded in meta.json), and /repo is restored.  A change counts as caught when the check exits 1 with a
VIOLATION line for the property.  Results: sensitivity/results.json and a table on stdout.

    tools/sensitivity.py [id ...]        (default: all)

Never leaves /repo modified (git checkout -- . in a finally clause); refuses to start when /repo has local modifications."""
import glob
import json
import os
import re
import subprocess
import sys
import time

VERIF = "/verif"


def sh(cmd, **kw):
    return subprocess.run(cmd, shell=True, stdout=subprocess.PIPE, stderr=subprocess.STDOUT, text=True, **kw)


def entries():
    out = []
    for meta in sorted(glob.glob(f"{VERIF}/seeded/*/meta.json")):
        m = json.load(open(meta))
        d = os.path.dirname(meta)
        checks = []
        for c in m.get("detected_by", {}).get("checks", []):
            cls = c.get("class", c.get("cls"))
            if cls is None:
                continue                     # recorded as "not detected by this check"
            cmd = c["check"]
            checks.append(cmd)
        out.append({"id": m["id"], "patch": f"{d}/patch.diff", "checks": checks})
    for p in sorted(glob.glob(f"{VERIF}/mutants/*.patch")):
        name = os.path.basename(p)[:-6]
        pid = name.split("-")[0]
        out.append({"id": "mutant:" + name, "patch": p, "checks": [f"./check {pid} quick"]})
    return out


def main():
    want = set(sys.argv[1:])
    if sh("git -C /repo diff --quiet").returncode != 0:
        print("/repo has local modifications; refusing to run")
        return 2
    res = []
    for e in entries():
        if want and e["id"] not in want:
            continue
        ap = sh(f"git -C /repo apply {e['patch']}")
        if ap.returncode != 0:
            res.append({"id": e["id"], "applied": False, "note": ap.stdout[-300:]})
            print(f"{e['id']:42s} PATCH DOES NOT APPLY")
            continue
        try:
            for cmd in e["checks"]:
                m = re.match(r"^((?:[A-Z_]+=\S+ )*)\./check (C\d+) (quick|thorough)$", cmd)
                if not m:
                    continue
                env, pid, tier = m.group(1), m.group(2), m.group(3)
                t0 = time.time()
                r = sh(f"cd {VERIF} && {env or 'VERIF_SEED=1 '}./check {pid} {tier}")
                caught = r.returncode == 1 and f"VIOLATION property={pid}" in r.stdout
                cls = re.search(r"^\s+class: (\S+)", r.stdout, re.M)
                res.append({"id": e["id"], "applied": True, "check": cmd, "caught": caught, "exit": r.returncode,
                            "class": cls.group(1) if cls else None, "wall_s": round(time.time() - t0, 1)})
                print(f"{e['id']:42s} {cmd:34s} {'CAUGHT' if caught else 'MISSED (exit %d)' % r.returncode:18s} {cls.group(1) if cls else ''}", flush=True)
        finally:
            sh("git -C /repo checkout -- .")
    os.makedirs(f"{VERIF}/sensitivity", exist_ok=True)
    head = sh("git -C /repo rev-parse --short HEAD").stdout.strip()
    json.dump({"repo_head": head, "when": time.strftime("%Y-%m-%dT%H:%M:%SZ", time.gmtime()), "results": res}, open(f"{VERIF}/sensitivity/results.json", "w"), indent=1)
    missed = [r for r in res if not r.get("caught")]
    print(f"{len(res)} (change, check) pairs, {len(res) - len(missed)} caught, {len(missed)} missed")
    return 0 if not missed else 1


if __name__ == "__main__":
    sys.exit(main())
