#!/bin/bash
# development helper: run C20 in triage mode over many seeds and collect one plan per dead-worker class
# usage: c20_saturate.sh <rounds> <seconds per round>
rounds=${1:-10}; secs=${2:-150}
mkdir -p /verif/findings/c20_triage
for r in $(seq 1 $rounds); do
  seed=$((1000 + RANDOM))
  rm -f /verif/replays/triage-*
  VERIF_EXPLORE=1 VERIF_TRIAGE=1 VERIF_SEED=$seed VERIF_BUDGET=$secs /verif/check C20 thorough > /tmp/c20_sat_$r.log 2>&1
  for f in /verif/replays/triage-*.json; do [ -f "$f" ] && cp -n "$f" /verif/findings/c20_triage/$(basename "$f" | sed 's/^triage-//'); done
  echo "round $r seed $seed: $(ls /verif/findings/c20_triage | wc -l) classes so far"
done
