#!/bin/bash
# Configure (once) and build libopmcommon.a from /repo's *current working tree*
# into /verif/build/<name>.   usage: build_tree.sh san|pat|opt
set -e
name=${1:-san}
tree=/verif/build/$name
common="-fno-omit-frame-pointer -DOPM_COMMON_VERIF -Wno-error -pipe -fopenmp -pthread"
case $name in
  san) flags="-O1 -g0 -fsanitize=address,undefined -fno-sanitize=nonnull-attribute -fno-sanitize-recover=undefined -ftrivial-auto-var-init=zero $common" ;;
  pat) flags="-O1 -g0 -fsanitize=address,undefined -fno-sanitize=nonnull-attribute -fno-sanitize-recover=undefined -ftrivial-auto-var-init=pattern $common" ;;
  opt) flags="-O2 -g0 -ftrivial-auto-var-init=zero $common" ;;
  *) echo "unknown tree $name" >&2; exit 2 ;;
esac
# (nonnull-attribute is off: libstdc++ itself calls memmove(dst, nullptr, 0) when an empty vector range is inserted - legal user code)
if [ ! -f $tree/build.ninja ] || [ "$(cat $tree/.verif_flags 2>/dev/null)" != "$flags" ]; then
  mkdir -p $tree
  cmake -S /repo -B $tree -G Ninja -DCMAKE_BUILD_TYPE=None -DBUILD_TESTING=OFF \
      -DBUILD_EXAMPLES=OFF -DOPM_ENABLE_PYTHON=OFF -DUSE_MPI=OFF -DCMAKE_PREFIX_PATH=/root/miniconda \
      -DCMAKE_CXX_FLAGS="$flags" > $tree.configure.log 2>&1 || { tail -30 $tree.configure.log; exit 2; }
  echo "$flags" > $tree/.verif_flags
fi
ninja -C $tree opmcommon > $tree.build.log 2>&1 || { tail -40 $tree.build.log; exit 2; }
